#!/bin/bash
# usage: ./seedcheck.sh <prop> <worktree> <name>   — confirm a seeded change (demo fails with / passes without,
# existing tests pass with it), run the property's quick check against the patched worktree (never /repo),
# store it under seeded/<name>/.
prop="$1"; wt="$2"; name="${3:-$1}"
export GOFLAGS=-mod=mod GOPROXY=off
seed="$wt/_seed"
[ -f "$seed/patch.diff" ] || { echo "no patch"; exit 2; }
dd=$(python3 -c "import json;print(json.load(open('$seed/meta.json'))['demo_dir'])" | sed "s#^$wt/##; s#^\./##")
dest="$wt/$dd/zz_seed_demo_test.go"
git -C "$wt" checkout -q -- .
cp "$seed/demo_test.go" "$dest"
echo "== demo WITHOUT change (must pass)"; (cd "$wt" && go test -count=1 "./$dd/" 2>&1 | tail -3)
git -C "$wt" apply "$seed/patch.diff" || { echo "patch does not apply"; exit 2; }
echo "== demo WITH change (must fail)"; (cd "$wt" && go test -count=1 "./$dd/" 2>&1 | tail -4)
rm -f "$dest"
echo "== existing tests WITH change (must pass)"; (cd "$wt" && go test -count=1 $(git -C "$wt" diff --name-only | xargs -n1 dirname | sort -u | sed 's#^#./#') 2>&1 | tail -4)
echo "== my check against the change"
(cd /verif && bin/gosmt check -prop "$prop" -tier quick -verif /verif -repo "$wt" 2>&1 | grep -E "VIOLATION|KNOWN|INCONCLUSIVE|PASS|exit=" | head -5); git -C /verif checkout -q -- evidence/$prop.json 2>/dev/null; rm -rf /verif/replay
mkdir -p /verif/seeded/$name && cp "$seed/patch.diff" "$seed/demo_test.go" "$seed/meta.json" /verif/seeded/$name/
