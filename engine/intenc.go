package main

// Integer encoding of bit-vector terms (exact, "bv-as-int"): every bit-vector term
// is printed as an Int-valued SMT term denoting its unsigned value in [0, 2^w);
// wrap-around is made explicit with mod 2^w wherever the tracked ranges do not rule
// it out. Linear arithmetic decides time/order constraints far faster than
// bit-blasting. Terms that are not expressible (symbolic bit operations, symbolic
// multiplication/division) raise errNotLIA and the harness must ask for arith=bv.

import (
	"fmt"
	"math/big"
	"math/bits"
	"strings"
)

type errNotLIA struct{ what string }

func pow2(k int) string {
	return new(big.Int).Lsh(big.NewInt(1), uint(k)).String()
}

func intLit(v uint64) string { return fmt.Sprintf("%d", v) }

// signedRef returns an Int expression for the signed value of t.
func signedRef(t *Term) string {
	if nonNeg(t) {
		return t.ref2(true)
	}
	if t.op == OpConst {
		return fmt.Sprintf("%d", signExt(t.c, t.w))
	}
	r := t.ref2(true)
	return fmt.Sprintf("(ite (>= %s %s) (- %s %s) %s)", r, pow2(t.w-1), r, pow2(t.w), r)
}

func (t *Term) ref2(intMode bool) string {
	if !intMode {
		return t.ref()
	}
	switch t.op {
	case OpConst:
		if t.w == 0 {
			return constLit(0, t.c)
		}
		return intLit(t.c)
	case OpVar:
		return smtName(t.name)
	}
	return t.defName()
}

func addNoOverflow(a, b *Term, w int) bool {
	if !(a.rng && b.rng) {
		return false
	}
	s, c := bits.Add64(a.hi, b.hi, 0)
	return c == 0 && s <= mask(w)
}

func mulNoOverflow(a, b *Term, w int) bool {
	if !(a.rng && b.rng) {
		return false
	}
	hi, lo := bits.Mul64(a.hi, b.hi)
	return hi == 0 && lo <= mask(w)
}

func isLowMask(c uint64) (int, bool) {
	if c&(c+1) == 0 {
		return bits.Len64(c), true
	}
	return 0, false
}

// intBody prints t's top-level node in the integer encoding.
func (t *Term) intBody() string {
	r := func(i int) string { return t.args[i].ref2(true) }
	w := t.w
	modw := func(e string) string { return fmt.Sprintf("(mod %s %s)", e, pow2(w)) }
	switch t.op {
	case OpNot, OpAnd, OpOr:
		var sb strings.Builder
		sb.WriteString("(" + opNames[t.op])
		for i := range t.args {
			sb.WriteString(" " + r(i))
		}
		sb.WriteString(")")
		return sb.String()
	case OpIte:
		return fmt.Sprintf("(ite %s %s %s)", r(0), r(1), r(2))
	case OpEq:
		return fmt.Sprintf("(= %s %s)", r(0), r(1))
	case OpUlt:
		return fmt.Sprintf("(< %s %s)", r(0), r(1))
	case OpUle:
		return fmt.Sprintf("(<= %s %s)", r(0), r(1))
	case OpSlt:
		return fmt.Sprintf("(< %s %s)", signedRef(t.args[0]), signedRef(t.args[1]))
	case OpSle:
		return fmt.Sprintf("(<= %s %s)", signedRef(t.args[0]), signedRef(t.args[1]))
	case OpAdd:
		e := fmt.Sprintf("(+ %s %s)", r(0), r(1))
		if addNoOverflow(t.args[0], t.args[1], w) {
			return e
		}
		return modw(e)
	case OpSub:
		a, b := t.args[0], t.args[1]
		e := fmt.Sprintf("(- %s %s)", r(0), r(1))
		if a.rng && b.rng && a.lo >= b.hi {
			return e
		}
		return modw(e)
	case OpNeg:
		return modw(fmt.Sprintf("(- %s)", r(0)))
	case OpBnot:
		return fmt.Sprintf("(- %s %s)", intLit(mask(w)), r(0))
	case OpMul:
		a, b := t.args[0], t.args[1]
		if !a.IsConst() && !b.IsConst() {
			panic(errNotLIA{"symbolic multiplication"})
		}
		e := fmt.Sprintf("(* %s %s)", r(0), r(1))
		if mulNoOverflow(a, b, w) {
			return e
		}
		return modw(e)
	case OpUdiv, OpUrem:
		if !t.args[1].IsConst() || t.args[1].c == 0 {
			panic(errNotLIA{"division by symbolic value"})
		}
		if t.op == OpUdiv {
			return fmt.Sprintf("(div %s %s)", r(0), r(1))
		}
		return fmt.Sprintf("(mod %s %s)", r(0), r(1))
	case OpSdiv, OpSrem:
		panic(errNotLIA{"signed division"})
	case OpZext:
		return r(0)
	case OpSext:
		a := t.args[0]
		if nonNeg(a) {
			return r(0)
		}
		// a >= 2^(wa-1) ? a + (2^w - 2^wa) : a
		d := new(big.Int).Sub(new(big.Int).Lsh(big.NewInt(1), uint(w)), new(big.Int).Lsh(big.NewInt(1), uint(a.w)))
		return fmt.Sprintf("(ite (>= %s %s) (+ %s %s) %s)", r(0), pow2(a.w-1), r(0), d.String(), r(0))
	case OpExtract:
		a := t.args[0]
		e := r(0)
		if t.b > 0 {
			e = fmt.Sprintf("(div %s %s)", e, pow2(t.b))
		}
		if t.b == 0 && a.rng && a.hi <= mask(w) {
			return e
		}
		return fmt.Sprintf("(mod %s %s)", e, pow2(w))
	case OpConcat:
		return fmt.Sprintf("(+ (* %s %s) %s)", r(0), pow2(t.args[1].w), r(1))
	case OpBand:
		a, b := t.args[0], t.args[1]
		if a.IsConst() {
			a, b = b, a
		}
		if b.IsConst() {
			if k, ok := isLowMask(b.c); ok {
				return fmt.Sprintf("(mod %s %s)", a.ref2(true), pow2(k))
			}
			// single contiguous mask 2^hi - 2^lo: ((a div 2^lo) mod 2^(hi-lo)) * 2^lo
			lo := bits.TrailingZeros64(b.c)
			if k, ok := isLowMask(b.c >> uint(lo)); ok {
				return fmt.Sprintf("(* (mod (div %s %s) %s) %s)", a.ref2(true), pow2(lo), pow2(k), pow2(lo))
			}
		}
		panic(errNotLIA{"bitwise and"})
	case OpBor, OpBxor:
		a, b := t.args[0], t.args[1]
		// disjoint bit ranges: a multiple of 2^k, b < 2^k  =>  a + b
		disjoint := func(x, y *Term) bool {
			if !y.rng {
				return false
			}
			k := bits.Len64(y.hi)
			switch x.op {
			case OpShl:
				return x.args[1].IsConst() && int(x.args[1].c) >= k
			case OpConst:
				return x.c&mask(k) == 0
			case OpBor, OpBxor:
				return false
			}
			return false
		}
		if disjoint(a, b) || disjoint(b, a) {
			return fmt.Sprintf("(+ %s %s)", r(0), r(1))
		}
		panic(errNotLIA{"bitwise or/xor"})
	case OpShl:
		if !t.args[1].IsConst() {
			panic(errNotLIA{"symbolic shift"})
		}
		k := int(t.args[1].c)
		if k >= w {
			return "0"
		}
		e := fmt.Sprintf("(* %s %s)", r(0), pow2(k))
		if t.args[0].rng && bits.Len64(t.args[0].hi)+k <= w {
			return e
		}
		return modw(e)
	case OpLshr:
		if !t.args[1].IsConst() {
			panic(errNotLIA{"symbolic shift"})
		}
		k := int(t.args[1].c)
		if k >= w {
			return "0"
		}
		return fmt.Sprintf("(div %s %s)", r(0), pow2(k))
	case OpAshr:
		if !t.args[1].IsConst() {
			panic(errNotLIA{"symbolic shift"})
		}
		k := int(t.args[1].c)
		if k >= w {
			k = w - 1
		}
		return modw(fmt.Sprintf("(div %s %s)", signedRef(t.args[0]), pow2(k)))
	}
	panic(errNotLIA{fmt.Sprintf("op %d", t.op)})
}
