package main

// Symbolic terms: bit-vectors (width 1..128) and booleans (width 0), with eager
// constant folding, light simplification, unsigned range tracking and structural
// hashing (used to name shared sub-terms in the solver).

import (
	"fmt"
	"math/bits"
	"strings"
)

type Op uint8

const (
	OpConst Op = iota
	OpVar
	OpNot // bool
	OpAnd // bool, n-ary
	OpOr  // bool, n-ary
	OpIte // bool or bv
	OpEq
	OpUlt
	OpUle
	OpSlt
	OpSle
	OpAdd
	OpSub
	OpMul
	OpUdiv
	OpUrem
	OpSdiv
	OpSrem
	OpBand
	OpBor
	OpBxor
	OpBnot
	OpNeg
	OpShl
	OpLshr
	OpAshr
	OpZext    // a = new width
	OpSext    // a = new width
	OpExtract // a = hi, b = lo
	OpConcat
)

var opNames = map[Op]string{
	OpNot: "not", OpAnd: "and", OpOr: "or", OpIte: "ite", OpEq: "=",
	OpUlt: "bvult", OpUle: "bvule", OpSlt: "bvslt", OpSle: "bvsle",
	OpAdd: "bvadd", OpSub: "bvsub", OpMul: "bvmul", OpUdiv: "bvudiv", OpUrem: "bvurem",
	OpSdiv: "bvsdiv", OpSrem: "bvsrem", OpBand: "bvand", OpBor: "bvor", OpBxor: "bvxor",
	OpBnot: "bvnot", OpNeg: "bvneg", OpShl: "bvshl", OpLshr: "bvlshr", OpAshr: "bvashr",
	OpConcat: "concat",
}

type Term struct {
	op   Op
	w    int // 0 = Bool
	args []*Term
	c    uint64 // constant value (masked); bool: 0/1
	name string
	a, b int
	h1   uint64
	h2   uint64
	// unsigned range, valid if rng
	rng    bool
	lo, hi uint64
	nvars  bool // contains a variable
}

func (t *Term) IsConst() bool { return t.op == OpConst }
func (t *Term) IsBool() bool  { return t.w == 0 }

func mask(w int) uint64 {
	if w >= 64 {
		return ^uint64(0)
	}
	return (uint64(1) << uint(w)) - 1
}

func signExt(v uint64, w int) int64 {
	if w >= 64 {
		return int64(v)
	}
	s := uint(64 - w)
	return int64(v<<s) >> s
}

// TermCtx owns hash-consing for one path execution.
type TermCtx struct {
	tab   map[[2]uint64]*Term
	fresh int
	// side constraints introduced by definitional encodings (division by constants)
	pendingAxioms []*Term
	vars          []*Term // in creation order
	varByName     map[string]*Term
	divDefs       map[string]divDef
}

func NewTermCtx() *TermCtx {
	return &TermCtx{tab: map[[2]uint64]*Term{}, varByName: map[string]*Term{}, divDefs: map[string]divDef{}}
}

func mix(h uint64, v uint64) uint64 {
	h ^= v + 0x9e3779b97f4a7c15 + (h << 6) + (h >> 2)
	h *= 0xff51afd7ed558ccd
	h ^= h >> 33
	return h
}
func mix2(h uint64, v uint64) uint64 {
	h = (h ^ v) * 0xc4ceb9fe1a85ec53
	h ^= h >> 29
	h += 0x632be59bd9b4e019
	return h
}

func (c *TermCtx) intern(t *Term) *Term {
	h1 := mix(uint64(t.op)+1, uint64(t.w))
	h2 := mix2(uint64(t.op)+77, uint64(t.w))
	h1 = mix(h1, t.c)
	h2 = mix2(h2, t.c)
	h1 = mix(h1, uint64(t.a)<<16|uint64(t.b))
	h2 = mix2(h2, uint64(t.a)<<16|uint64(t.b))
	for i := 0; i < len(t.name); i++ {
		h1 = mix(h1, uint64(t.name[i]))
		h2 = mix2(h2, uint64(t.name[i]))
	}
	for _, a := range t.args {
		h1 = mix(h1, a.h1)
		h2 = mix2(h2, a.h2)
		h1 = mix(h1, a.h2)
		if a.nvars {
			t.nvars = true
		}
	}
	t.h1, t.h2 = h1, h2
	k := [2]uint64{h1, h2}
	if o, ok := c.tab[k]; ok {
		return o
	}
	c.tab[k] = t
	return t
}

func (c *TermCtx) Const(w int, v uint64) *Term {
	if w == 0 {
		if v != 0 {
			v = 1
		}
	} else {
		v &= mask(w)
	}
	t := &Term{op: OpConst, w: w, c: v}
	if w > 0 && w <= 64 {
		t.rng, t.lo, t.hi = true, v, v
	}
	return c.intern(t)
}

func (c *TermCtx) True() *Term  { return c.Const(0, 1) }
func (c *TermCtx) False() *Term { return c.Const(0, 0) }
func (c *TermCtx) Bool(b bool) *Term {
	if b {
		return c.True()
	}
	return c.False()
}

func (c *TermCtx) Var(name string, w int) *Term {
	if v, ok := c.varByName[name]; ok {
		if v.w != w {
			panic(engineErr("variable %s redeclared with width %d (was %d)", name, w, v.w))
		}
		return v
	}
	t := &Term{op: OpVar, w: w, name: name, nvars: true}
	t = c.intern(t)
	c.varByName[name] = t
	c.vars = append(c.vars, t)
	return t
}

func (c *TermCtx) Fresh(prefix string, w int) *Term {
	c.fresh++
	return c.Var(fmt.Sprintf("%s!%d", prefix, c.fresh), w)
}

// WithRange returns t annotated with an unsigned range the caller guarantees.
func (c *TermCtx) WithRange(t *Term, lo, hi uint64) *Term {
	if t.op == OpConst {
		return t
	}
	if t.rng {
		if lo < t.lo {
			lo = t.lo
		}
		if hi > t.hi {
			hi = t.hi
		}
	}
	// ranges are annotations that do not change identity; copy-on-write would break
	// hash-consing, so we only annotate in place (sound: guaranteed by caller).
	t.rng, t.lo, t.hi = true, lo, hi
	return t
}

func (c *TermCtx) mk(op Op, w int, args ...*Term) *Term {
	return c.intern(&Term{op: op, w: w, args: args})
}

// ---------- boolean ----------

func (c *TermCtx) Not(x *Term) *Term {
	if x.w != 0 {
		panic(engineErr("Not on non-bool"))
	}
	if x.op == OpConst {
		return c.Const(0, 1-x.c)
	}
	if x.op == OpNot {
		return x.args[0]
	}
	return c.mk(OpNot, 0, x)
}

func (c *TermCtx) And(xs ...*Term) *Term {
	var out []*Term
	for _, x := range xs {
		if x.w != 0 {
			panic(engineErr("And on non-bool"))
		}
		if x.op == OpConst {
			if x.c == 0 {
				return c.False()
			}
			continue
		}
		if x.op == OpAnd {
			out = append(out, x.args...)
			continue
		}
		out = append(out, x)
	}
	out = dedup(out)
	for _, x := range out {
		if x.op == OpNot {
			for _, y := range out {
				if y == x.args[0] {
					return c.False()
				}
			}
		}
	}
	switch len(out) {
	case 0:
		return c.True()
	case 1:
		return out[0]
	}
	return c.mk(OpAnd, 0, out...)
}

func dedup(xs []*Term) []*Term {
	if len(xs) < 2 {
		return xs
	}
	var out []*Term
outer:
	for _, x := range xs {
		for _, y := range out {
			if x == y {
				continue outer
			}
		}
		out = append(out, x)
	}
	return out
}

func (c *TermCtx) Or(xs ...*Term) *Term {
	var out []*Term
	for _, x := range xs {
		if x.w != 0 {
			panic(engineErr("Or on non-bool"))
		}
		if x.op == OpConst {
			if x.c == 1 {
				return c.True()
			}
			continue
		}
		if x.op == OpOr {
			out = append(out, x.args...)
			continue
		}
		out = append(out, x)
	}
	out = dedup(out)
	for _, x := range out {
		if x.op == OpNot {
			for _, y := range out {
				if y == x.args[0] {
					return c.True()
				}
			}
		}
	}
	switch len(out) {
	case 0:
		return c.False()
	case 1:
		return out[0]
	}
	return c.mk(OpOr, 0, out...)
}

func (c *TermCtx) Implies(a, b *Term) *Term { return c.Or(c.Not(a), b) }

func (c *TermCtx) Ite(cond, a, b *Term) *Term {
	if cond.w != 0 || a.w != b.w {
		panic(engineErr("Ite sort mismatch %d %d %d", cond.w, a.w, b.w))
	}
	if cond.op == OpConst {
		if cond.c == 1 {
			return a
		}
		return b
	}
	if a == b {
		return a
	}
	if a.w == 0 {
		if a.op == OpConst && b.op == OpConst {
			if a.c == 1 {
				return cond
			}
			return c.Not(cond)
		}
		if a.op == OpConst {
			if a.c == 1 {
				return c.Or(cond, b)
			}
			return c.And(c.Not(cond), b)
		}
		if b.op == OpConst {
			if b.c == 1 {
				return c.Or(c.Not(cond), a)
			}
			return c.And(cond, a)
		}
	}
	t := c.mk(OpIte, a.w, cond, a, b)
	if a.rng && b.rng && !t.rng {
		t.rng = true
		t.lo, t.hi = min(a.lo, b.lo), max(a.hi, b.hi)
	}
	return t
}

// ---------- comparisons ----------

func (c *TermCtx) Eq(a, b *Term) *Term {
	if a.w != b.w {
		panic(engineErr("Eq width mismatch %d vs %d", a.w, b.w))
	}
	if a == b {
		return c.True()
	}
	if a.op == OpConst && b.op == OpConst {
		return c.Bool(a.c == b.c)
	}
	if a.w == 0 {
		if a.op == OpConst {
			a, b = b, a
		}
		if b.op == OpConst {
			if b.c == 1 {
				return a
			}
			return c.Not(a)
		}
	}
	if a.rng && b.rng && (a.hi < b.lo || b.hi < a.lo) {
		return c.False()
	}
	// canonical order
	if a.h1 > b.h1 {
		a, b = b, a
	}
	// ite(c, k1, k2) == k  with constants
	if b.op == OpConst {
		a, b = b, a
	}
	if a.op == OpConst && b.op == OpIte && b.args[1].op == OpConst && b.args[2].op == OpConst {
		t1 := b.args[1].c == a.c
		t2 := b.args[2].c == a.c
		switch {
		case t1 && t2:
			return c.True()
		case t1:
			return b.args[0]
		case t2:
			return c.Not(b.args[0])
		default:
			return c.False()
		}
	}
	return c.mk(OpEq, 0, a, b)
}

func (c *TermCtx) Ult(a, b *Term) *Term {
	c.chk2(a, b)
	if a.op == OpConst && b.op == OpConst {
		return c.Bool(a.c < b.c)
	}
	if a == b {
		return c.False()
	}
	if a.rng && b.rng {
		if a.hi < b.lo {
			return c.True()
		}
		if a.lo >= b.hi {
			return c.False()
		}
	}
	return c.mk(OpUlt, 0, a, b)
}
func (c *TermCtx) Ule(a, b *Term) *Term {
	c.chk2(a, b)
	if a.op == OpConst && b.op == OpConst {
		return c.Bool(a.c <= b.c)
	}
	if a == b {
		return c.True()
	}
	if a.rng && b.rng {
		if a.hi <= b.lo {
			return c.True()
		}
		if a.lo > b.hi {
			return c.False()
		}
	}
	return c.mk(OpUle, 0, a, b)
}

func nonNeg(t *Term) bool {
	return t.rng && t.w <= 64 && t.hi <= mask(t.w)>>1
}

func (c *TermCtx) Slt(a, b *Term) *Term {
	c.chk2(a, b)
	if a.op == OpConst && b.op == OpConst {
		return c.Bool(signExt(a.c, a.w) < signExt(b.c, b.w))
	}
	if a == b {
		return c.False()
	}
	if nonNeg(a) && nonNeg(b) {
		return c.Ult(a, b)
	}
	return c.mk(OpSlt, 0, a, b)
}
func (c *TermCtx) Sle(a, b *Term) *Term {
	c.chk2(a, b)
	if a.op == OpConst && b.op == OpConst {
		return c.Bool(signExt(a.c, a.w) <= signExt(b.c, b.w))
	}
	if a == b {
		return c.True()
	}
	if nonNeg(a) && nonNeg(b) {
		return c.Ule(a, b)
	}
	return c.mk(OpSle, 0, a, b)
}

func (c *TermCtx) chk2(a, b *Term) {
	if a.w != b.w || a.w == 0 {
		panic(engineErr("bv op width mismatch %d vs %d", a.w, b.w))
	}
}

// ---------- arithmetic ----------

func (c *TermCtx) Add(a, b *Term) *Term {
	c.chk2(a, b)
	if a.op == OpConst && b.op == OpConst && a.w <= 64 {
		return c.Const(a.w, a.c+b.c)
	}
	if a.op == OpConst {
		a, b = b, a
	}
	if b.op == OpConst && b.c == 0 {
		return a
	}
	// a + (-x)  ==>  a - x   (lets range reasoning avoid wrap-around)
	if b.op == OpNeg {
		return c.Sub(a, b.args[0])
	}
	if a.op == OpNeg {
		return c.Sub(b, a.args[0])
	}
	// (x + k1) + k2
	if b.op == OpConst && a.op == OpAdd && a.args[1].op == OpConst && a.w <= 64 {
		return c.Add(a.args[0], c.Const(a.w, a.args[1].c+b.c))
	}
	t := c.mk(OpAdd, a.w, a, b)
	if a.rng && b.rng && a.w <= 64 && !t.rng {
		s, carry := bits.Add64(a.hi, b.hi, 0)
		if carry == 0 && s <= mask(a.w) {
			t.rng, t.lo, t.hi = true, a.lo+b.lo, s
		}
	}
	return t
}

func (c *TermCtx) Sub(a, b *Term) *Term {
	c.chk2(a, b)
	if a.op == OpConst && b.op == OpConst && a.w <= 64 {
		return c.Const(a.w, a.c-b.c)
	}
	if b.op == OpConst && b.c == 0 {
		return a
	}
	if a == b {
		return c.Const(a.w, 0)
	}
	if b.op == OpConst && a.op == OpAdd && a.args[1].op == OpConst && a.w <= 64 {
		return c.Add(a.args[0], c.Const(a.w, a.args[1].c-b.c))
	}
	if b.op == OpConst && a.w <= 64 {
		// x - k  ==>  x + (-k), lets additions fold
		if !(a.rng && a.lo >= b.c) {
			return c.Add(a, c.Const(a.w, -b.c))
		}
	}
	t := c.mk(OpSub, a.w, a, b)
	if a.rng && b.rng && a.lo >= b.hi && !t.rng {
		t.rng, t.lo, t.hi = true, a.lo-b.hi, a.hi-b.lo
	}
	return t
}

func (c *TermCtx) Neg(a *Term) *Term {
	if a.op == OpConst && a.w <= 64 {
		return c.Const(a.w, -a.c)
	}
	return c.mk(OpNeg, a.w, a)
}

func (c *TermCtx) Mul(a, b *Term) *Term {
	c.chk2(a, b)
	if a.op == OpConst && b.op == OpConst && a.w <= 64 {
		return c.Const(a.w, a.c*b.c)
	}
	if a.op == OpConst {
		a, b = b, a
	}
	if b.op == OpConst {
		if b.c == 0 {
			return b
		}
		if b.c == 1 {
			return a
		}
	}
	t := c.mk(OpMul, a.w, a, b)
	if a.rng && b.rng && a.w <= 64 && !t.rng {
		hi, lo := bits.Mul64(a.hi, b.hi)
		if hi == 0 && lo <= mask(a.w) {
			t.rng, t.lo, t.hi = true, a.lo*b.lo, lo
		}
	}
	return t
}

func (c *TermCtx) binRaw(op Op, a, b *Term) *Term {
	c.chk2(a, b)
	if a.op == OpConst && b.op == OpConst && a.w <= 64 {
		w := a.w
		switch op {
		case OpUdiv:
			if b.c == 0 {
				return c.Const(w, mask(w))
			}
			return c.Const(w, a.c/b.c)
		case OpUrem:
			if b.c == 0 {
				return a
			}
			return c.Const(w, a.c%b.c)
		case OpSdiv:
			x, y := signExt(a.c, w), signExt(b.c, w)
			if y == 0 {
				if x >= 0 {
					return c.Const(w, mask(w))
				}
				return c.Const(w, 1)
			}
			if y == -1 {
				return c.Const(w, uint64(-x))
			}
			return c.Const(w, uint64(x/y))
		case OpSrem:
			x, y := signExt(a.c, w), signExt(b.c, w)
			if y == 0 {
				return a
			}
			if y == -1 {
				return c.Const(w, 0)
			}
			return c.Const(w, uint64(x%y))
		case OpBand:
			return c.Const(w, a.c&b.c)
		case OpBor:
			return c.Const(w, a.c|b.c)
		case OpBxor:
			return c.Const(w, a.c^b.c)
		case OpShl:
			if b.c >= uint64(w) {
				return c.Const(w, 0)
			}
			return c.Const(w, a.c<<b.c)
		case OpLshr:
			if b.c >= uint64(w) {
				return c.Const(w, 0)
			}
			return c.Const(w, a.c>>b.c)
		case OpAshr:
			x := signExt(a.c, w)
			s := b.c
			if s >= uint64(w) {
				s = uint64(w - 1)
			}
			return c.Const(w, uint64(x>>s))
		}
	}
	switch op {
	case OpBand:
		if a.op == OpConst {
			a, b = b, a
		}
		if b.op == OpConst {
			if b.c == 0 {
				return b
			}
			if b.c == mask(a.w) && a.w <= 64 {
				return a
			}
			if a.rng && a.w <= 64 {
				// mask covering the whole range and of the form 2^k-1
				if b.c&(b.c+1) == 0 && a.hi <= b.c {
					return a
				}
				// bits of mask all above range
				if a.hi < (b.c & -b.c) {
					return c.Const(a.w, 0)
				}
			}
		}
		if a == b {
			return a
		}
		t := c.mk(op, a.w, a, b)
		if !t.rng && a.w <= 64 {
			if b.op == OpConst {
				t.rng, t.lo, t.hi = true, 0, b.c
			} else if a.rng {
				t.rng, t.lo, t.hi = true, 0, a.hi
			}
		}
		return t
	case OpBor, OpBxor:
		if a.op == OpConst {
			a, b = b, a
		}
		if b.op == OpConst && b.c == 0 {
			return a
		}
	case OpShl, OpLshr, OpAshr:
		if b.op == OpConst && b.c == 0 {
			return a
		}
		if op == OpLshr && b.op == OpConst && a.rng && a.w <= 64 && b.c < 64 {
			t := c.mk(op, a.w, a, b)
			if !t.rng {
				t.rng, t.lo, t.hi = true, a.lo>>b.c, a.hi>>b.c
			}
			return t
		}
	case OpUdiv:
		if b.op == OpConst && b.c == 1 {
			return a
		}
	}
	return c.mk(op, a.w, a, b)
}

func (c *TermCtx) Bnot(a *Term) *Term {
	if a.op == OpConst && a.w <= 64 {
		return c.Const(a.w, ^a.c)
	}
	return c.mk(OpBnot, a.w, a)
}

func (c *TermCtx) Zext(a *Term, w int) *Term {
	if w == a.w {
		return a
	}
	if w < a.w {
		panic(engineErr("zext to smaller width"))
	}
	if a.op == OpConst && w <= 64 {
		return c.Const(w, a.c)
	}
	t := c.intern(&Term{op: OpZext, w: w, args: []*Term{a}, a: w})
	if !t.rng && a.w <= 64 {
		if a.rng {
			t.rng, t.lo, t.hi = true, a.lo, a.hi
		} else {
			t.rng, t.lo, t.hi = true, 0, mask(a.w)
		}
	}
	return t
}

func (c *TermCtx) Sext(a *Term, w int) *Term {
	if w == a.w {
		return a
	}
	if w < a.w {
		panic(engineErr("sext to smaller width"))
	}
	if a.op == OpConst && w <= 64 {
		return c.Const(w, uint64(signExt(a.c, a.w)))
	}
	if nonNeg(a) {
		return c.Zext(a, w)
	}
	return c.intern(&Term{op: OpSext, w: w, args: []*Term{a}, a: w})
}

func (c *TermCtx) Extract(a *Term, hi, lo int) *Term {
	if hi < lo || hi >= a.w {
		panic(engineErr("bad extract [%d:%d] of width %d", hi, lo, a.w))
	}
	if lo == 0 && hi == a.w-1 {
		return a
	}
	if a.op == OpConst && a.w <= 64 {
		return c.Const(hi-lo+1, a.c>>uint(lo))
	}
	w := hi - lo + 1
	if lo == 0 && (a.op == OpZext || a.op == OpSext) {
		in := a.args[0]
		if in.w == w {
			return in
		}
		if in.w > w {
			return c.Extract(in, hi, 0)
		}
		if a.op == OpZext {
			return c.Zext(in, w)
		}
		return c.Sext(in, w)
	}
	t := c.intern(&Term{op: OpExtract, w: w, args: []*Term{a}, a: hi, b: lo})
	if !t.rng && lo == 0 && a.rng && a.hi <= mask(w) {
		t.rng, t.lo, t.hi = true, a.lo, a.hi
	}
	return t
}

// Resize converts a bit-vector to width w, sign- or zero-extending per signed.
func (c *TermCtx) Resize(a *Term, w int, signed bool) *Term {
	switch {
	case w == a.w:
		return a
	case w < a.w:
		return c.Extract(a, w-1, 0)
	case signed:
		return c.Sext(a, w)
	default:
		return c.Zext(a, w)
	}
}

// DivModConst computes truncated signed division/remainder of a by the positive
// constant k without emitting bvsdiv: fresh q, r with defining axioms.
func (c *TermCtx) DivModConst(a *Term, k uint64, signed bool) (q, r *Term) {
	w := a.w
	if k == 0 {
		panic(engineErr("DivModConst by zero"))
	}
	if a.op == OpConst {
		if signed {
			x := signExt(a.c, w)
			return c.Const(w, uint64(x/int64(k))), c.Const(w, uint64(x%int64(k)))
		}
		return c.Const(w, a.c/k), c.Const(w, a.c%k)
	}
	if k == 1 {
		return a, c.Const(w, 0)
	}
	// truncated division is odd: (-x)/k = -(x/k), (-x)%k = -(x%k)
	if signed && a.op == OpNeg && nonNeg(a.args[0]) {
		q, r := c.DivModConst(a.args[0], k, true)
		return c.Neg(q), c.Neg(r)
	}
	// x*k / k
	if a.op == OpMul && a.args[1].op == OpConst && a.args[1].c == k && a.rng {
		return a.args[0], c.Const(w, 0)
	}
	// (x*k + c) / k with no overflow (ranges known) and c >= 0
	if a.op == OpAdd && a.rng && a.args[1].op == OpConst && a.args[0].op == OpMul && a.args[0].rng &&
		a.args[0].args[1].op == OpConst && a.args[0].args[1].c == k && a.args[1].c <= mask(w)>>1 && nonNeg(a) {
		x := a.args[0].args[0]
		return c.Add(x, c.Const(w, a.args[1].c/k)), c.Const(w, a.args[1].c%k)
	}
	if a.rng && a.hi < k && (!signed || nonNeg(a)) {
		return c.Const(w, 0), a
	}
	if k&(k-1) == 0 && (!signed || nonNeg(a)) {
		sh := uint64(bits.TrailingZeros64(k))
		return c.binRaw(OpLshr, a, c.Const(w, sh)), c.binRaw(OpBand, a, c.Const(w, k-1))
	}
	kq := c.Const(w, k)
	q = c.Fresh("q", w)
	r = c.Fresh("r", w)
	c.divDefs[q.name] = divDef{a: a, k: k, signed: signed && !nonNeg(a)}
	c.divDefs[r.name] = divDef{a: a, k: k, signed: signed && !nonNeg(a), isRem: true}
	ax := []*Term{c.Eq(a, c.Add(c.Mul(q, kq), r))}
	if signed && !nonNeg(a) {
		maxq := uint64(1)<<uint(w-1)/k + 1
		ax = append(ax,
			c.Slt(r, kq), c.Slt(c.Neg(kq), r),
			c.Or(c.Eq(r, c.Const(w, 0)), c.Eq(c.Slt(r, c.Const(w, 0)), c.Slt(a, c.Const(w, 0)))),
			c.Sle(q, c.Const(w, maxq)), c.Sle(c.Const(w, -maxq), q),
		)
	} else {
		maxq := mask(w) / k
		if a.rng {
			maxq = a.hi / k
		}
		// build the axioms first: range annotations would fold them away
		ax = append(ax, c.Ult(r, kq), c.Ule(q, c.Const(w, maxq)))
		if a.rng {
			q.rng, q.lo, q.hi = true, a.lo/k, a.hi/k
		}
		r.rng, r.lo, r.hi = true, 0, k-1
	}
	c.pendingAxioms = append(c.pendingAxioms, ax...)
	return q, r
}

// ---------- evaluation under a model ----------

type Model map[string]uint64

type divDef struct {
	a      *Term
	k      uint64
	signed bool
	isRem  bool
}

// evalNode evaluates t's top node given an evaluator for its children.
func evalNode(t *Term, rec func(*Term) uint64) uint64 {
	var r uint64
	w := t.w
	arg := func(i int) uint64 { return rec(t.args[i]) }
	sarg := func(i int) int64 { return signExt(rec(t.args[i]), t.args[i].w) }
	b := func(x bool) uint64 {
		if x {
			return 1
		}
		return 0
	}
	if w > 64 || (len(t.args) > 0 && t.args[0].w > 64) {
		panic(engineErr("eval of >64-bit term"))
	}
	switch t.op {
	case OpNot:
		r = 1 - arg(0)
	case OpAnd:
		r = 1
		for i := range t.args {
			if arg(i) == 0 {
				r = 0
				break
			}
		}
	case OpOr:
		r = 0
		for i := range t.args {
			if arg(i) == 1 {
				r = 1
				break
			}
		}
	case OpIte:
		if arg(0) == 1 {
			r = arg(1)
		} else {
			r = arg(2)
		}
	case OpEq:
		r = b(arg(0) == arg(1))
	case OpUlt:
		r = b(arg(0) < arg(1))
	case OpUle:
		r = b(arg(0) <= arg(1))
	case OpSlt:
		r = b(sarg(0) < sarg(1))
	case OpSle:
		r = b(sarg(0) <= sarg(1))
	case OpAdd:
		r = arg(0) + arg(1)
	case OpSub:
		r = arg(0) - arg(1)
	case OpMul:
		r = arg(0) * arg(1)
	case OpNeg:
		r = -arg(0)
	case OpBnot:
		r = ^arg(0)
	case OpBand:
		r = arg(0) & arg(1)
	case OpBor:
		r = arg(0) | arg(1)
	case OpBxor:
		r = arg(0) ^ arg(1)
	case OpUdiv:
		if y := arg(1); y == 0 {
			r = mask(w)
		} else {
			r = arg(0) / y
		}
	case OpUrem:
		if y := arg(1); y == 0 {
			r = arg(0)
		} else {
			r = arg(0) % y
		}
	case OpSdiv:
		x, y := sarg(0), sarg(1)
		switch {
		case y == 0 && x >= 0:
			r = mask(w)
		case y == 0:
			r = 1
		case y == -1:
			r = uint64(-x)
		default:
			r = uint64(x / y)
		}
	case OpSrem:
		x, y := sarg(0), sarg(1)
		switch {
		case y == 0:
			r = uint64(x)
		case y == -1:
			r = 0
		default:
			r = uint64(x % y)
		}
	case OpShl:
		if s := arg(1); s >= uint64(w) {
			r = 0
		} else {
			r = arg(0) << s
		}
	case OpLshr:
		if s := arg(1); s >= uint64(w) {
			r = 0
		} else {
			r = arg(0) >> s
		}
	case OpAshr:
		s := arg(1)
		if s >= uint64(w) {
			s = uint64(w - 1)
		}
		r = uint64(sarg(0) >> s)
	case OpZext:
		r = arg(0)
	case OpSext:
		r = uint64(sarg(0))
	case OpExtract:
		r = arg(0) >> uint(t.b)
	case OpConcat:
		r = arg(0)<<uint(t.args[1].w) | arg(1)
	default:
		panic(engineErr("eval: op %d", t.op))
	}
	if w > 0 {
		r &= mask(w)
	}
	return r
}

// ---------- printing ----------

func sortName(w int) string {
	if w == 0 {
		return "Bool"
	}
	return fmt.Sprintf("(_ BitVec %d)", w)
}

func constLit(w int, v uint64) string {
	if w == 0 {
		if v == 1 {
			return "true"
		}
		return "false"
	}
	if w%4 == 0 && w <= 64 {
		return fmt.Sprintf("#x%0*x", w/4, v)
	}
	if w <= 64 {
		return fmt.Sprintf("#b%0*b", w, v)
	}
	return fmt.Sprintf("(_ bv%d %d)", v, w)
}

func smtName(s string) string {
	ok := true
	for _, r := range s {
		if !(r >= 'a' && r <= 'z' || r >= 'A' && r <= 'Z' || r >= '0' && r <= '9' || strings.ContainsRune("_.!$%&*+-/<=>?@^~", r)) {
			ok = false
			break
		}
	}
	if ok && s != "" && !(s[0] >= '0' && s[0] <= '9') {
		return s
	}
	return "|" + strings.NewReplacer("|", "_", "\\", "_").Replace(s) + "|"
}

func (t *Term) defName() string { return fmt.Sprintf("t%016x%016x", t.h1, t.h2) }

// ref returns how to reference t given the set of already defined names.
func (t *Term) ref() string {
	switch t.op {
	case OpConst:
		return constLit(t.w, t.c)
	case OpVar:
		return smtName(t.name)
	}
	return t.defName()
}

// body prints t's top-level node referencing children by name.
func (t *Term) body() string {
	var sb strings.Builder
	switch t.op {
	case OpZext:
		fmt.Fprintf(&sb, "((_ zero_extend %d) %s)", t.w-t.args[0].w, t.args[0].ref())
	case OpSext:
		fmt.Fprintf(&sb, "((_ sign_extend %d) %s)", t.w-t.args[0].w, t.args[0].ref())
	case OpExtract:
		fmt.Fprintf(&sb, "((_ extract %d %d) %s)", t.a, t.b, t.args[0].ref())
	default:
		sb.WriteString("(")
		sb.WriteString(opNames[t.op])
		for _, a := range t.args {
			sb.WriteString(" ")
			sb.WriteString(a.ref())
		}
		sb.WriteString(")")
	}
	return sb.String()
}

// String renders a term fully (for debugging / evidence samples); may be large.
func (t *Term) String() string {
	var sb strings.Builder
	t.str(&sb, 0)
	return sb.String()
}

func (t *Term) str(sb *strings.Builder, depth int) {
	if depth > 12 {
		sb.WriteString("...")
		return
	}
	switch t.op {
	case OpConst:
		if t.w == 0 {
			sb.WriteString(constLit(0, t.c))
		} else {
			fmt.Fprintf(sb, "%d", signExt(t.c, t.w))
		}
	case OpVar:
		sb.WriteString(t.name)
	case OpZext, OpSext:
		fmt.Fprintf(sb, "(ext%d ", t.w)
		t.args[0].str(sb, depth+1)
		sb.WriteString(")")
	case OpExtract:
		fmt.Fprintf(sb, "(extract[%d:%d] ", t.a, t.b)
		t.args[0].str(sb, depth+1)
		sb.WriteString(")")
	default:
		sb.WriteString("(")
		sb.WriteString(opNames[t.op])
		for _, a := range t.args {
			sb.WriteString(" ")
			a.str(sb, depth+1)
		}
		sb.WriteString(")")
	}
}
