package main

// Interpreter values. Scalars are *Term (bool = width 0); heap structure is
// concrete per path.
//
//  *Term        bool and all integer kinds
//  Float        float32/64 (concrete, or opaque when derived from a symbolic int)
//  string       concrete string
//  *SymStr      string of concrete length with symbolic bytes
//  structure    struct (fields in order)
//  array        array
//  *value       pointer (nil pointer = (*value)(nil))
//  []value      slice (nil slice = []value(nil))
//  *Map         map (nil map = (*Map)(nil))
//  *Chan        channel
//  iface        interface value (nil interface = iface{})
//  tuple        multi-value
//  *closure / *ssa.Function / *ssa.Builtin / *NativeFunc   function values
//  *Opaque      value from a stubbed-out package (metrics, logging, tracing, native regexp)
//  unsafePtr    unsafe.Pointer wrapper

import (
	"fmt"
	"go/types"
	"strings"

	"golang.org/x/tools/go/ssa"
)

type value = any

type tuple []value
type array []value
type structure []value

type iface struct {
	t types.Type
	v value
}

type closure struct {
	Fn  *ssa.Function
	Env []value
}

// NativeFunc is a function value implemented by the engine.
type NativeFunc struct {
	name string
	fn   func(in *Interp, args []value) value
}

type Float struct {
	v      float64
	opaque bool
}

type SymStr struct {
	b []*Term // each width 8
}

type Opaque struct {
	name string
	typ  types.Type
	data any
	// calls records method names invoked on this object (metrics counters etc.)
	calls map[string]int
	count *Term // for counters: number of Inc()/Add calls, may be symbolic
	children map[string]value // metric vectors: the child per label values
}

type unsafePtr struct{ p value }

type mapEntry struct {
	key, val value
	ckey     string
	concrete bool
	deleted  bool
}

type Map struct {
	entries []*mapEntry
	index   map[string]*mapEntry
	nsym    int
}

func newMap() *Map { return &Map{index: map[string]*mapEntry{}} }

func (m *Map) Len() int {
	if m == nil {
		return 0
	}
	n := 0
	for _, e := range m.entries {
		if !e.deleted {
			n++
		}
	}
	return n
}

func (m *Map) compact() {
	if len(m.entries) < 16 {
		return
	}
	dead := 0
	for _, e := range m.entries {
		if e.deleted {
			dead++
		}
	}
	if dead*2 < len(m.entries) {
		return
	}
	out := m.entries[:0:0]
	for _, e := range m.entries {
		if !e.deleted {
			out = append(out, e)
		}
	}
	m.entries = out
}

// rtype is the engine's reflect.Type stand-in (only identity/printing).
type rtype struct{ t types.Type }

// ---------- type helpers ----------

func under(t types.Type) types.Type { return t.Underlying() }

func deref(t types.Type) types.Type {
	if p, ok := under(t).(*types.Pointer); ok {
		return p.Elem()
	}
	panic(engineErr("deref of non-pointer type %s", t))
}

func intWidth(b *types.Basic) (w int, signed bool, ok bool) {
	switch b.Kind() {
	case types.Bool, types.UntypedBool:
		return 0, false, true
	case types.Int8:
		return 8, true, true
	case types.Int16:
		return 16, true, true
	case types.Int32, types.UntypedRune:
		return 32, true, true
	case types.Int, types.Int64, types.UntypedInt:
		return 64, true, true
	case types.Uint8:
		return 8, false, true
	case types.Uint16:
		return 16, false, true
	case types.Uint32:
		return 32, false, true
	case types.Uint, types.Uint64, types.Uintptr:
		return 64, false, true
	}
	return 0, false, false
}

func basicOf(t types.Type) *types.Basic {
	b, _ := under(t).(*types.Basic)
	return b
}

func isInt(t types.Type) (w int, signed bool, ok bool) {
	b := basicOf(t)
	if b == nil {
		return 0, false, false
	}
	w, signed, ok = intWidth(b)
	if ok && w == 0 {
		return 0, false, false
	}
	return
}

func isString(t types.Type) bool {
	b := basicOf(t)
	return b != nil && b.Info()&types.IsString != 0
}

func isFloat(t types.Type) bool {
	b := basicOf(t)
	return b != nil && b.Info()&types.IsFloat != 0
}

func isBool(t types.Type) bool {
	b := basicOf(t)
	return b != nil && b.Info()&types.IsBoolean != 0
}

// zero returns the zero value of type t.
func (in *Interp) zero(t types.Type) value {
	switch t := t.(type) {
	case *types.Basic:
		if t.Kind() == types.UnsafePointer {
			return unsafePtr{}
		}
		if t.Kind() == types.UntypedNil {
			panic(engineErr("zero of untyped nil"))
		}
		if w, _, ok := intWidth(t); ok {
			return in.tc.Const(w, 0)
		}
		if t.Info()&types.IsFloat != 0 {
			return Float{}
		}
		if t.Info()&types.IsString != 0 {
			return ""
		}
		if t.Info()&types.IsComplex != 0 {
			return Float{}
		}
		panic(engineErr("zero of basic %s", t))
	case *types.Pointer:
		return (*value)(nil)
	case *types.Array:
		a := make(array, t.Len())
		for i := range a {
			a[i] = in.zero(t.Elem())
		}
		return a
	case *types.Named, *types.Alias:
		return in.zero(t.Underlying())
	case *types.Interface:
		return iface{}
	case *types.Slice:
		return []value(nil)
	case *types.Struct:
		s := make(structure, t.NumFields())
		for i := range s {
			s[i] = in.zero(t.Field(i).Type())
		}
		return s
	case *types.Tuple:
		if t.Len() == 1 {
			return in.zero(t.At(0).Type())
		}
		s := make(tuple, t.Len())
		for i := range s {
			s[i] = in.zero(t.At(i).Type())
		}
		return s
	case *types.Chan:
		return (*Chan)(nil)
	case *types.Map:
		return (*Map)(nil)
	case *types.Signature:
		return (*ssa.Function)(nil)
	case *types.TypeParam:
		panic(engineErr("zero of type parameter %s (generic body executed?)", t))
	}
	panic(engineErr("zero: unexpected type %T %s", t, t))
}

// copyVal copies aggregates (structs, arrays) so that values have value semantics.
func copyVal(v value) value {
	switch v := v.(type) {
	case structure:
		out := make(structure, len(v))
		for i, f := range v {
			out[i] = copyVal(f)
		}
		return out
	case array:
		out := make(array, len(v))
		for i, f := range v {
			out[i] = copyVal(f)
		}
		return out
	case tuple:
		out := make(tuple, len(v))
		for i, f := range v {
			out[i] = copyVal(f)
		}
		return out
	}
	return v
}

func isNilFunc(v value) bool {
	switch f := v.(type) {
	case *ssa.Function:
		return f == nil
	case *closure:
		return f == nil
	case *NativeFunc:
		return f == nil
	case *ssa.Builtin:
		return f == nil
	}
	return false
}

// equals returns a boolean term for x == y at static type t.
func (in *Interp) equals(t types.Type, x, y value) *Term {
	tc := in.tc
	switch x := x.(type) {
	case *Term:
		yt, ok := y.(*Term)
		if !ok {
			panic(engineErr("equals: term vs %T", y))
		}
		return tc.Eq(x, yt)
	case Float:
		yf := y.(Float)
		if x.opaque || yf.opaque {
			panic(engineErr("comparison of opaque floats"))
		}
		return tc.Bool(x.v == yf.v)
	case string:
		switch y := y.(type) {
		case string:
			return tc.Bool(x == y)
		case *SymStr:
			return in.symStrEq(in.toSymStr(x), y)
		}
	case *SymStr:
		return in.symStrEq(x, in.toSymStr(y))
	case *value:
		switch y := y.(type) {
		case *value:
			return tc.Bool(x == y)
		case *Opaque:
			return tc.Bool(false)
		}
	case *Opaque:
		if yo, ok := y.(*Opaque); ok {
			return tc.Bool(x == yo)
		}
		return tc.Bool(false)
	case *Map:
		return tc.Bool(x == y.(*Map))
	case *Chan:
		return tc.Bool(x == y.(*Chan))
	case unsafePtr:
		return tc.Bool(x.p == y.(unsafePtr).p)
	case []value:
		// only comparison against nil is legal
		ys := y.([]value)
		if x != nil && ys != nil {
			panic(engineErr("comparison of two non-nil slices"))
		}
		return tc.Bool((x == nil) == (ys == nil))
	case structure:
		ys := y.(structure)
		st := under(t).(*types.Struct)
		var cs []*Term
		for i := range x {
			if st.Field(i).Name() == "_" {
				continue
			}
			cs = append(cs, in.equals(st.Field(i).Type(), x[i], ys[i]))
		}
		return tc.And(cs...)
	case array:
		ya := y.(array)
		et := under(t).(*types.Array).Elem()
		var cs []*Term
		for i := range x {
			cs = append(cs, in.equals(et, x[i], ya[i]))
		}
		return tc.And(cs...)
	case iface:
		yi := y.(iface)
		if x.t == nil || yi.t == nil {
			return tc.Bool(x.t == nil && yi.t == nil)
		}
		if !types.Identical(x.t, yi.t) {
			return tc.False()
		}
		return in.equals(x.t, x.v, yi.v)
	case rtype:
		return tc.Bool(types.Identical(x.t, y.(rtype).t))
	case *ssa.Function, *closure, *NativeFunc, *ssa.Builtin:
		if isNilFunc(x) || isNilFunc(y) {
			return tc.Bool(isNilFunc(x) && isNilFunc(y))
		}
		panic(engineErr("comparison of non-nil funcs"))
	}
	panic(engineErr("equals: unhandled %T vs %T", x, y))
}

func (in *Interp) toSymStr(v value) *SymStr {
	switch v := v.(type) {
	case *SymStr:
		return v
	case string:
		s := &SymStr{b: make([]*Term, len(v))}
		for i := 0; i < len(v); i++ {
			s.b[i] = in.tc.Const(8, uint64(v[i]))
		}
		return s
	}
	panic(engineErr("toSymStr of %T", v))
}

func (in *Interp) symStrEq(a, b *SymStr) *Term {
	if len(a.b) != len(b.b) {
		return in.tc.False()
	}
	cs := make([]*Term, len(a.b))
	for i := range a.b {
		cs[i] = in.tc.Eq(a.b[i], b.b[i])
	}
	return in.tc.And(cs...)
}

// concreteStr returns the Go string if the value is a fully concrete string.
func concreteStr(v value) (string, bool) {
	switch v := v.(type) {
	case string:
		return v, true
	case *SymStr:
		b := make([]byte, len(v.b))
		for i, t := range v.b {
			if !t.IsConst() {
				return "", false
			}
			b[i] = byte(t.c)
		}
		return string(b), true
	}
	return "", false
}

func strLen(v value) int {
	switch v := v.(type) {
	case string:
		return len(v)
	case *SymStr:
		return len(v.b)
	}
	panic(engineErr("strLen of %T", v))
}

// concreteKey returns a canonical string for a fully concrete comparable value.
func concreteKey(v value) (string, bool) {
	switch v := v.(type) {
	case *Term:
		if v.IsConst() {
			return fmt.Sprintf("i%d:%d", v.w, v.c), true
		}
		return "", false
	case string:
		return "s" + v, true
	case *SymStr:
		if s, ok := concreteStr(v); ok {
			return "s" + s, true
		}
		return "", false
	case Float:
		return fmt.Sprintf("f%v", v.v), !v.opaque
	case *value:
		return fmt.Sprintf("p%p", v), true
	case *Opaque:
		return fmt.Sprintf("o%p", v), true
	case *Chan:
		return fmt.Sprintf("c%p", v), true
	case *Map:
		return fmt.Sprintf("m%p", v), true
	case iface:
		if v.t == nil {
			return "nil", true
		}
		k, ok := concreteKey(v.v)
		return "I" + v.t.String() + "|" + k, ok
	case structure:
		var sb strings.Builder
		sb.WriteString("{")
		for _, f := range v {
			k, ok := concreteKey(f)
			if !ok {
				return "", false
			}
			fmt.Fprintf(&sb, "%d:%s,", len(k), k)
		}
		sb.WriteString("}")
		return sb.String(), true
	case array:
		var sb strings.Builder
		sb.WriteString("[")
		for _, f := range v {
			k, ok := concreteKey(f)
			if !ok {
				return "", false
			}
			fmt.Fprintf(&sb, "%d:%s,", len(k), k)
		}
		sb.WriteString("]")
		return sb.String(), true
	case rtype:
		return "T" + v.t.String(), true
	case unsafePtr:
		return fmt.Sprintf("u%p", v.p), true
	}
	panic(engineErr("concreteKey: unhandled %T", v))
}

// show renders a value for diagnostics.
func show(v value) string { return showDepth(v, 0) }

func showDepth(v value, d int) string {
	if d > 4 {
		return "…"
	}
	switch v := v.(type) {
	case nil:
		return "<nil>"
	case *Term:
		return v.String()
	case Float:
		if v.opaque {
			return "float?"
		}
		return fmt.Sprint(v.v)
	case string:
		return fmt.Sprintf("%q", v)
	case *SymStr:
		if s, ok := concreteStr(v); ok {
			return fmt.Sprintf("%q", s)
		}
		return fmt.Sprintf("symstr[%d]", len(v.b))
	case structure:
		var parts []string
		for _, f := range v {
			parts = append(parts, showDepth(f, d+1))
		}
		return "{" + strings.Join(parts, ", ") + "}"
	case array:
		var parts []string
		for _, f := range v {
			parts = append(parts, showDepth(f, d+1))
		}
		return "[" + strings.Join(parts, ", ") + "]"
	case tuple:
		var parts []string
		for _, f := range v {
			parts = append(parts, showDepth(f, d+1))
		}
		return "(" + strings.Join(parts, ", ") + ")"
	case []value:
		if v == nil {
			return "[]nil"
		}
		var parts []string
		for i, f := range v {
			if i > 8 {
				parts = append(parts, "…")
				break
			}
			parts = append(parts, showDepth(f, d+1))
		}
		return "[]{" + strings.Join(parts, ", ") + "}"
	case *value:
		if v == nil {
			return "nilptr"
		}
		return "&" + showDepth(*v, d+1)
	case iface:
		if v.t == nil {
			return "nil-iface"
		}
		return fmt.Sprintf("iface(%s: %s)", v.t, showDepth(v.v, d+1))
	case *Map:
		if v == nil {
			return "nilmap"
		}
		var parts []string
		for _, e := range v.entries {
			if !e.deleted {
				parts = append(parts, showDepth(e.key, d+1)+":"+showDepth(e.val, d+1))
			}
		}
		return "map{" + strings.Join(parts, ", ") + "}"
	case *Opaque:
		return "opaque(" + v.name + ")"
	case *ssa.Function:
		if v == nil {
			return "nilfunc"
		}
		return v.String()
	case *closure:
		return "closure(" + v.Fn.String() + ")"
	}
	return fmt.Sprintf("%T", v)
}
