package main

// Symbolic regular-expression matching. The pattern is concrete (compiled by the real
// regexp/syntax package to its instruction program); the input is a string of known
// length whose bytes may be symbolic. The matcher is a backtracking interpreter of
// syntax.Prog with Go's leftmost-first semantics (the same order and (pc,pos) pruning
// as regexp's own bit-state backtracker): every test of an input rune against a
// character class or of an empty-width assertion becomes a solver decision, so one
// run covers every byte string that takes the same trace through the program.
// Leftmost-longest (POSIX) expressions are not modelled.

import (
	"regexp"
	"regexp/syntax"
	"sync"
	"unicode"
	"unicode/utf8"
)

var rxProgs sync.Map // pattern string -> *syntax.Prog

func rxProg(re *regexp.Regexp) *syntax.Prog {
	if p, ok := rxProgs.Load(re.String()); ok {
		return p.(*syntax.Prog)
	}
	rx, err := syntax.Parse(re.String(), syntax.Perl)
	if err != nil {
		panic(engineErr("symregex: %v", err))
	}
	prog, err := syntax.Compile(rx.Simplify())
	if err != nil {
		panic(engineErr("symregex: %v", err))
	}
	rxProgs.Store(re.String(), prog)
	return prog
}

type symRx struct {
	in      *Interp
	prog    *syntax.Prog
	runes   []*Term // decoded runes (32 bit)
	pos     []int   // byte offset of rune i; pos[len(runes)] = len(input)
	visited map[[2]int]bool
	cap     []int
}

func symStrConcrete(s *SymStr) (string, bool) {
	b := make([]byte, len(s.b))
	for i, t := range s.b {
		if !t.IsConst() {
			return "", false
		}
		b[i] = byte(t.c)
	}
	return string(b), true
}

// symRegexFind returns the capture offsets (like FindStringSubmatchIndex) of the
// leftmost-first match, or nil.
func (in *Interp) symRegexFind(re *regexp.Regexp, s *SymStr) []int {
	prog := rxProg(re)
	m := &symRx{in: in, prog: prog, visited: map[[2]int]bool{}}
	for i := 0; i < len(s.b); {
		var r *Term
		var w int
		if s.b[i].IsConst() && s.b[i].c < utf8.RuneSelf {
			r, w = in.tc.Const(32, s.b[i].c), 1
		} else {
			r, w = in.decodeRuneSym(s.b[i:])
		}
		m.pos = append(m.pos, i)
		m.runes = append(m.runes, r)
		i += w
	}
	m.pos = append(m.pos, len(s.b))
	ncap := 2 * (re.NumSubexp() + 1)
	for start := 0; start <= len(m.runes); start++ {
		m.cap = make([]int, ncap)
		for i := range m.cap {
			m.cap[i] = -1
		}
		m.cap[0] = m.pos[start]
		if m.try(prog.Start, start) {
			return m.cap
		}
	}
	return nil
}

func (m *symRx) try(pc, ri int) bool {
	k := [2]int{pc, ri}
	if m.visited[k] {
		return false
	}
	m.visited[k] = true
	in := m.in
	inst := &m.prog.Inst[pc]
	switch inst.Op {
	case syntax.InstFail:
		return false
	case syntax.InstAlt, syntax.InstAltMatch:
		if m.try(int(inst.Out), ri) {
			return true
		}
		return m.try(int(inst.Arg), ri)
	case syntax.InstNop:
		return m.try(int(inst.Out), ri)
	case syntax.InstCapture:
		if int(inst.Arg) < len(m.cap) {
			old := m.cap[inst.Arg]
			m.cap[inst.Arg] = m.pos[ri]
			if m.try(int(inst.Out), ri) {
				return true
			}
			m.cap[inst.Arg] = old
			return false
		}
		return m.try(int(inst.Out), ri)
	case syntax.InstEmptyWidth:
		if !in.branch(m.emptyCond(syntax.EmptyOp(inst.Arg), ri), "regexp empty-width") {
			return false
		}
		return m.try(int(inst.Out), ri)
	case syntax.InstMatch:
		m.cap[1] = m.pos[ri]
		return true
	case syntax.InstRune, syntax.InstRune1, syntax.InstRuneAny, syntax.InstRuneAnyNotNL:
		if ri >= len(m.runes) {
			return false
		}
		if !in.branch(m.runeCond(inst, m.runes[ri]), "regexp class") {
			return false
		}
		return m.try(int(inst.Out), ri+1)
	}
	panic(engineErr("symregex: unhandled instruction %v", inst.Op))
}

func (m *symRx) runeCond(inst *syntax.Inst, r *Term) *Term {
	tc := m.in.tc
	if r.IsConst() {
		return tc.Bool(inst.MatchRune(rune(r.c)))
	}
	c := func(v rune) *Term { return tc.Const(32, uint64(v)) }
	switch inst.Op {
	case syntax.InstRuneAny:
		return tc.True()
	case syntax.InstRuneAnyNotNL:
		return tc.Not(tc.Eq(r, c('\n')))
	}
	rs := inst.Rune
	if len(rs) == 1 {
		r0 := rs[0]
		alts := []*Term{tc.Eq(r, c(r0))}
		if syntax.Flags(inst.Arg)&syntax.FoldCase != 0 {
			for r1 := unicode.SimpleFold(r0); r1 != r0; r1 = unicode.SimpleFold(r1) {
				alts = append(alts, tc.Eq(r, c(r1)))
			}
		}
		return tc.Or(alts...)
	}
	var alts []*Term
	for i := 0; i+1 < len(rs); i += 2 {
		if rs[i] == rs[i+1] {
			alts = append(alts, tc.Eq(r, c(rs[i])))
		} else {
			alts = append(alts, tc.And(tc.Ule(c(rs[i]), r), tc.Ule(r, c(rs[i+1]))))
		}
	}
	return tc.Or(alts...)
}

func (m *symRx) isWord(r *Term) *Term {
	tc := m.in.tc
	c := func(v rune) *Term { return tc.Const(32, uint64(v)) }
	rng := func(lo, hi rune) *Term { return tc.And(tc.Ule(c(lo), r), tc.Ule(r, c(hi))) }
	return tc.Or(rng('A', 'Z'), rng('a', 'z'), rng('0', '9'), tc.Eq(r, c('_')))
}

func (m *symRx) emptyCond(op syntax.EmptyOp, ri int) *Term {
	tc := m.in.tc
	nl := tc.Const(32, '\n')
	atStart, atEnd := ri == 0, ri == len(m.runes)
	var cs []*Term
	if op&syntax.EmptyBeginText != 0 {
		cs = append(cs, tc.Bool(atStart))
	}
	if op&syntax.EmptyEndText != 0 {
		cs = append(cs, tc.Bool(atEnd))
	}
	if op&syntax.EmptyBeginLine != 0 {
		if atStart {
			cs = append(cs, tc.True())
		} else {
			cs = append(cs, tc.Eq(m.runes[ri-1], nl))
		}
	}
	if op&syntax.EmptyEndLine != 0 {
		if atEnd {
			cs = append(cs, tc.True())
		} else {
			cs = append(cs, tc.Eq(m.runes[ri], nl))
		}
	}
	if op&(syntax.EmptyWordBoundary|syntax.EmptyNoWordBoundary) != 0 {
		w1, w2 := tc.False(), tc.False()
		if !atStart {
			w1 = m.isWord(m.runes[ri-1])
		}
		if !atEnd {
			w2 = m.isWord(m.runes[ri])
		}
		boundary := tc.Or(tc.And(w1, tc.Not(w2)), tc.And(tc.Not(w1), w2))
		if op&syntax.EmptyWordBoundary != 0 {
			cs = append(cs, boundary)
		}
		if op&syntax.EmptyNoWordBoundary != 0 {
			cs = append(cs, tc.Not(boundary))
		}
	}
	return tc.And(cs...)
}

// rxFind runs the regexp on a string value that may be symbolic; concrete inputs go
// through the real regexp package.
func (in *Interp) rxFind(re *regexp.Regexp, v value) (loc []int, s *SymStr) {
	s = in.toSymStr(v)
	if str, ok := symStrConcrete(s); ok {
		return re.FindStringSubmatchIndex(str), s
	}
	return in.symRegexFind(re, s), s
}
