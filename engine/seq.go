package main

// Sequenced native replay of schedule-dependent counterexamples. The engine's path
// carries the order in which goroutines arrived at synchronisation points (opRec).
// For a counterexample that does not reproduce under Go's own scheduler, the source
// statements of those points are instrumented (by overlay, never on disk) with
// vfsched.Point(key) and the native run is repeated with the schedule enforced.

import (
	"bytes"
	"encoding/json"
	"fmt"
	"go/ast"
	"go/parser"
	"go/token"
	"os"
	"path/filepath"
	"sort"
	"strings"

	"golang.org/x/tools/go/ast/astutil"
)

type seqOp struct {
	G     int    `json:"g"`
	Key   string `json:"key"`
	Child int    `json:"child"`
}

type seqFile struct {
	rel   string
	src   []byte
	fset  *token.FileSet
	f     *ast.File
	tf    *token.File
	ins   map[int]string // byte offset -> text to insert
	nGo   int
	dirty bool
}

type sequencer struct {
	r      *CheckRun
	files  map[string]*seqFile
	module string
}

func (r *CheckRun) modulePath() string {
	b, err := os.ReadFile(filepath.Join(r.Repo, "go.mod"))
	if err != nil {
		return ""
	}
	for _, l := range strings.Split(string(b), "\n") {
		if strings.HasPrefix(l, "module ") {
			return strings.TrimSpace(strings.TrimPrefix(l, "module "))
		}
	}
	return ""
}

func (s *sequencer) file(rel string) *seqFile {
	if f, ok := s.files[rel]; ok {
		return f
	}
	abs := filepath.Join(s.r.Repo, rel)
	src, ok := s.r.overlay[abs]
	if !ok {
		var err error
		src, err = os.ReadFile(abs)
		if err != nil {
			s.files[rel] = nil
			return nil
		}
	}
	fset := token.NewFileSet()
	af, err := parser.ParseFile(fset, abs, src, parser.ParseComments)
	if err != nil {
		s.files[rel] = nil
		return nil
	}
	sf := &seqFile{rel: rel, src: src, fset: fset, f: af, tf: fset.File(af.Pos()), ins: map[int]string{}}
	s.files[rel] = sf
	return sf
}

// stmtFor finds the statement to instrument for an operation at line:col, or nil.
// It returns the statement and whether it is a go statement.
func (sf *seqFile) stmtFor(line, col int) (ast.Stmt, bool) {
	if line < 1 || line > sf.tf.LineCount() {
		return nil, false
	}
	pos := sf.tf.LineStart(line) + token.Pos(col-1)
	path, _ := astutil.PathEnclosingInterval(sf.f, pos, pos)
	for i := 0; i < len(path); i++ {
		st, ok := path[i].(ast.Stmt)
		if !ok {
			if _, isLit := path[i].(*ast.FuncLit); isLit {
				// the operation is not inside a statement of this literal: give up
				return nil, false
			}
			continue
		}
		// climb while the statement is a header part of its parent
		j := i
		for {
			if j+1 >= len(path) {
				return nil, false
			}
			parent := path[j+1]
			switch p := parent.(type) {
			case *ast.IfStmt:
				if p.Init == st {
					st, j = p, j+1
					continue
				}
				if p.Else == st {
					return nil, false // else-if: nowhere to insert
				}
			case *ast.SwitchStmt:
				if p.Init == st {
					st, j = p, j+1
					continue
				}
			case *ast.TypeSwitchStmt:
				if p.Init == st || p.Assign == st {
					st, j = p, j+1
					continue
				}
			case *ast.ForStmt:
				if p.Init == st || p.Post == st {
					return nil, false
				}
			case *ast.LabeledStmt:
				st, j = p, j+1
				continue
			case *ast.CommClause:
				if p.Comm == st {
					// the select statement: CommClause -> BlockStmt -> SelectStmt
					if j+3 < len(path) {
						if sel, ok := path[j+3].(*ast.SelectStmt); ok {
							st, j = sel, j+3
							continue
						}
					}
					return nil, false
				}
			}
			break
		}
		switch st.(type) {
		case *ast.DeferStmt, *ast.ForStmt, *ast.RangeStmt, *ast.CaseClause, *ast.CommClause, *ast.BlockStmt:
			// (a loop header is evaluated once per iteration, a point before the loop only once)
			return nil, false
		}
		// the statement must sit directly in a statement list
		switch path[j+1].(type) {
		case *ast.BlockStmt, *ast.CaseClause, *ast.CommClause:
		default:
			return nil, false
		}
		_, isGo := st.(*ast.GoStmt)
		return st, isGo
	}
	return nil, false
}

func (sf *seqFile) off(p token.Pos) int { return sf.tf.Offset(p) }

func (sf *seqFile) keyOf(st ast.Stmt) string {
	p := sf.fset.Position(st.Pos())
	return fmt.Sprintf("%s:%d:%d", sf.rel, p.Line, p.Column)
}

// instrument inserts the point (once per statement).
func (sf *seqFile) instrument(st ast.Stmt, isGo bool) string {
	key := sf.keyOf(st)
	o := sf.off(st.Pos())
	if _, done := sf.ins[o]; done {
		return key
	}
	sf.dirty = true
	if !isGo {
		sf.ins[o] = fmt.Sprintf("vfsched.Point(%q); ", key)
		return key
	}
	g := st.(*ast.GoStmt)
	sf.nGo++
	id := fmt.Sprintf("vfschedID%d", sf.nGo)
	sf.ins[o] = fmt.Sprintf("vfsched.Point(%q); %s := vfsched.ChildID(); ", key, id)
	if lit, ok := g.Call.Fun.(*ast.FuncLit); ok {
		sf.ins[sf.off(lit.Body.Lbrace)+1] = fmt.Sprintf(" vfsched.Enter(%s); ", id)
	} else {
		// go f(x): wrapped in a literal (f and x are then evaluated in the new goroutine)
		sf.ins[sf.off(g.Call.Pos())] = fmt.Sprintf("func() { vfsched.Enter(%s); ", id)
		sf.ins[sf.off(g.Call.End())] = " }()"
	}
	return key
}

func (sf *seqFile) render(module string) []byte {
	offs := make([]int, 0, len(sf.ins)+1)
	ins := map[int]string{}
	for o, t := range sf.ins {
		ins[o] = t
	}
	ins[sf.off(sf.f.Name.End())] = fmt.Sprintf("; import vfsched %q", module+"/internal/vfsched")
	for o := range ins {
		offs = append(offs, o)
	}
	sort.Ints(offs)
	var out bytes.Buffer
	last := 0
	for _, o := range offs {
		out.Write(sf.src[last:o])
		out.WriteString(ins[o])
		last = o
	}
	out.Write(sf.src[last:])
	return out.Bytes()
}

func (r *CheckRun) newSequencer() *sequencer {
	return &sequencer{r: r, files: map[string]*seqFile{}, module: r.modulePath()}
}

// buildSchedule turns one operation trace into a schedule and instrumented files.
func (r *CheckRun) buildSchedule(ops []opRec) ([]seqOp, map[string][]byte, int) {
	s := r.newSequencer()
	out, dropped := s.schedule(ops)
	return out, s.render(), dropped
}

// render returns the instrumented files (absolute path -> source).
func (s *sequencer) render() map[string][]byte {
	files := map[string][]byte{}
	for rel, sf := range s.files {
		if sf != nil && sf.dirty {
			files[filepath.Join(s.r.Repo, rel)] = sf.render(s.module)
		}
	}
	return files
}

// schedule turns an operation trace into the sequencer's schedule, instrumenting the
// statements it needs (shared between all traces given to this sequencer).
// Operations that cannot be instrumented are left unsequenced.
func (s *sequencer) schedule(ops []opRec) ([]seqOp, int) {
	var out []seqOp
	dropped := 0
	// the previous placed operation: several operations of one execution of one
	// statement (same activation and later in the source, or inside the same call into
	// code outside the repository) share one point
	type placedAt struct{ g, serial, icount, line, col int }
	var prev placedAt
	lastOf := map[int]placedAt{}
	for _, op := range ops {
		placed := false
		for wi, w := range op.Where {
			if wi > 0 {
				break // only the innermost repository frame: a point further out is passed too early
			}
			var line, col, serial, icount int
			if h := strings.LastIndex(w, "#"); h >= 0 {
				fmt.Sscanf(w[h+1:], "%d.%d", &serial, &icount)
				w = w[:h]
			}
			i := strings.LastIndex(w, ":")
			if i < 0 {
				continue
			}
			j := strings.LastIndex(w[:i], ":")
			if j < 0 {
				continue
			}
			fmt.Sscanf(w[j+1:], "%d:%d", &line, &col)
			rel := w[:j]
			if strings.HasSuffix(rel, "_test.go") {
				continue
			}
			sf := s.file(rel)
			if sf == nil {
				continue
			}
			st, isGo := sf.stmtFor(line, col)
			if st == nil {
				continue
			}
			if isGo && op.Kind != "go" {
				continue // an operation inside the operands of a go statement
			}
			key := sf.instrument(st, isGo)
			child := 0
			if op.Kind == "go" {
				child = op.Child
			}
			cur := placedAt{op.G, serial, icount, line, col}
			if lp, ok := lastOf[op.G]; ok && lp.serial == serial && lp.icount == icount {
				// still inside the same call into code outside the repository (other
				// goroutines may have run in between): no second point
				placed = true
				break
			}
			lastOf[op.G] = cur
			if n := len(out); n > 0 && out[n-1].G == op.G && out[n-1].Key == key && child == 0 && out[n-1].Child == 0 &&
				prev.g == op.G && prev.serial == serial && (prev.icount == icount || line > prev.line || (line == prev.line && col > prev.col)) {
				placed = true
				prev = cur
				break
			}
			out = append(out, seqOp{G: op.G, Key: key, Child: child})
			prev = cur
			placed = true
			break
		}
		if !placed {
			dropped++
		}
	}
	return out, dropped
}

// goroutinesIn counts the goroutines of a trace.
func goroutinesIn(ops []opRec) int {
	seen := map[int]bool{}
	for _, o := range ops {
		seen[o.G] = true
	}
	return len(seen)
}

// runSequenced replays one counterexample natively with its schedule enforced.
func (r *CheckRun) runSequenced(pkgDir string, j *replayJob) (*nativeOut, string) {
	sched, files, dropped := r.buildSchedule(j.path.Ops)
	if len(sched) == 0 {
		return nil, "no operation of the schedule could be instrumented"
	}
	raw, _ := json.Marshal(sched)
	job := &replayJob{hr: j.hr, path: j.path, schedOps: raw, extraOverlay: files}
	if err := r.runNative(pkgDir, []*replayJob{job}); err != nil {
		return nil, "sequenced native run failed: " + tail(err.Error(), 30)
	}
	if job.out == nil {
		return nil, "sequenced native run produced no output: " + job.err
	}
	note := fmt.Sprintf("schedule of %d points over %d files enforced natively", len(sched), len(files))
	if dropped > 0 {
		note += fmt.Sprintf(", %d operations left unsequenced", dropped)
	}
	if job.out.SchedReport != "" {
		note += "; sequencer: " + job.out.SchedReport
	}
	return job.out, note
}
