package main

// Crash-consistent file-system model (stub for package os). A file has a content
// (what a running process reads back) and a durable prefix length (what survives a
// crash for sure); Sync makes the whole content durable; Rename rebinds a name
// atomically but is itself durable only once "the directory reaches the disk", which
// the model leaves open (a crash may or may not preserve a rename that was not
// followed by anything making it durable). vfCrashAt(k) kills the process right
// before its k-th file-system operation; vfCrashRecover() turns the state into a
// possible post-crash state: every file keeps its durable prefix plus an arbitrary
// prefix of the unsynced rest (the last record possibly torn), and each rename since
// the last crash point is either kept or undone.

import (
	"fmt"

	"golang.org/x/tools/go/ssa"
)

type fsInode struct {
	data    []value
	durable int
}

type fsRename struct {
	from, to string
	prev     *fsInode // what `to` was bound to before (nil = nothing)
	inode    *fsInode
}

type fsState struct {
	names   map[string]*fsInode
	order   []string
	renames []fsRename
	ops     int
	crashAt int // -1 = never
	crashed bool
	opLog   []string
}

type fsHandle struct {
	name   string
	inode  *fsInode
	pos    int
	closed bool
	write  bool
	app    bool // O_APPEND
	inPlace bool // opened with OpenFile: writes go to pos and may overwrite
}

type crashSentinel struct{}

func (in *Interp) fs() *fsState {
	if s, ok := in.side["fs"].(*fsState); ok {
		return s
	}
	s := &fsState{names: map[string]*fsInode{}, crashAt: -1}
	in.side["fs"] = s
	return s
}

func (in *Interp) fsOp(what string) {
	s := in.fs()
	if s.crashAt >= 0 && s.ops == s.crashAt && !s.crashed {
		s.crashed = true
		s.opLog = append(s.opLog, "CRASH before "+what)
		panic(targetPanic{v: iface{t: in.errType(), v: "process killed (crash point)"}, msg: "crash"})
	}
	s.ops++
	s.opLog = append(s.opLog, what)
}

func (in *Interp) fileValue(h *fsHandle) value {
	var cell value = &Opaque{name: "os.File:" + h.name, data: h}
	return &cell
}

func handleOf(v value) *fsHandle {
	p, ok := v.(*value)
	if !ok || p == nil {
		panic(engineErr("os.File method on %s", show(v)))
	}
	o, ok := (*p).(*Opaque)
	if !ok {
		panic(engineErr("os.File is not an engine file: %s", show(*p)))
	}
	return o.data.(*fsHandle)
}

func (in *Interp) osErr(name string) value {
	pkg := in.prog.ImportedPackage("io/fs")
	return *in.globalAddr(pkg.Var(name))
}

func registerFS() {
	I := intrinsics
	vfAPI["vfCrashAt"] = func(in *Interp, fr *frame, fn *ssa.Function, a []value) value {
		k, ok := cint(a[0])
		if !ok {
			panic(engineErr("vfCrashAt needs a concrete operation index (use vfChoice)"))
		}
		s := in.fs()
		s.crashAt = s.ops + int(k)
		s.crashed = false
		return nil
	}
	// vfPowerLoss: the machine loses power now (the process may have finished its work):
	// unsynced data and renames are at the mercy of vfCrashRecover
	vfAPI["vfPowerLoss"] = func(in *Interp, fr *frame, fn *ssa.Function, a []value) value {
		in.fs().crashed = true
		return nil
	}
	// vfFSSettle: a long time passes without a crash: everything written and renamed so far
	// has reached the disk
	vfAPI["vfFSSettle"] = func(in *Interp, fr *frame, fn *ssa.Function, a []value) value {
		s := in.fs()
		for _, ino := range s.names {
			ino.durable = len(ino.data)
		}
		s.renames = nil
		return nil
	}
	vfAPI["vfFSOps"] = func(in *Interp, fr *frame, fn *ssa.Function, a []value) value {
		return in.i64(int64(in.fs().ops))
	}
	vfAPI["vfCrashed"] = func(in *Interp, fr *frame, fn *ssa.Function, a []value) value {
		return in.tc.Bool(in.fs().crashed)
	}
	// vfCrashRecover: choose a post-crash state (decisions), reset handles
	vfAPI["vfCrashRecover"] = func(in *Interp, fr *frame, fn *ssa.Function, a []value) value {
		s := in.fs()
		// renames, newest first: keep or undo (only when the process crashed)
		if s.crashed {
			for i := len(s.renames) - 1; i >= 0; i-- {
				r := s.renames[i]
				if in.decide([]*Term{in.tc.True(), in.tc.True()}, "rename-durable", []string{"kept", "lost"}) == 1 {
					// undo: `to` is bound to what it was before, `from` exists again
					if r.prev != nil {
						s.names[r.to] = r.prev
					} else {
						delete(s.names, r.to)
					}
					s.names[r.from] = r.inode
				}
			}
		}
		s.renames = nil
		for _, name := range s.order {
			ino, ok := s.names[name]
			if !ok {
				continue
			}
			if s.crashed && ino.durable < len(ino.data) {
				tail := len(ino.data) - ino.durable
				alts := make([]*Term, 0, 2*tail+1)
				labels := []string{}
				for k := 0; k <= tail; k++ {
					alts = append(alts, in.tc.True())
					labels = append(labels, fmt.Sprintf("keep%d", k))
				}
				// a torn record after k complete ones
				for k := 0; k < tail; k++ {
					alts = append(alts, in.tc.True())
					labels = append(labels, fmt.Sprintf("keep%d+torn", k))
				}
				c := in.decide(alts, "unsynced-data:"+name, labels)
				if c <= tail {
					ino.data = ino.data[:ino.durable+c]
				} else {
					k := c - tail - 1
					kept := append([]value{}, ino.data[:ino.durable+k]...)
					if mb, ok := ino.data[ino.durable+k].(msgByte); ok {
						mb.torn = true
						mb.npad = 0
						kept = append(kept, mb)
					} else {
						kept = append(kept, in.tc.Const(8, 0xff))
					}
					ino.data = kept
				}
			}
			ino.durable = len(ino.data)
		}
		s.crashAt = -1
		s.crashed = false
		return nil
	}
	// vfFSPut(name, bytes): a complete, durable file (e.g. the previous snapshot)
	vfAPI["vfFSPut"] = func(in *Interp, fr *frame, fn *ssa.Function, a []value) value {
		s := in.fs()
		name := in.mustStr(a[0], "vfFSPut")
		data := append([]value{}, a[1].([]value)...)
		if _, ok := s.names[name]; !ok {
			s.order = append(s.order, name)
		}
		s.names[name] = &fsInode{data: data, durable: len(data)}
		return nil
	}
	vfAPI["vfFSExists"] = func(in *Interp, fr *frame, fn *ssa.Function, a []value) value {
		_, ok := in.fs().names[in.mustStr(a[0], "vfFSExists")]
		return in.tc.Bool(ok)
	}
	vfAPI["vfFSNames"] = func(in *Interp, fr *frame, fn *ssa.Function, a []value) value {
		s := in.fs()
		n := 0
		for _, name := range s.order {
			if _, ok := s.names[name]; ok {
				n++
			}
		}
		return in.i64(int64(n))
	}

	I["os.Create"] = func(in *Interp, fr *frame, fn *ssa.Function, a []value) value {
		name := in.mustStr(a[0], "os.Create")
		in.fsOp("create " + name)
		s := in.fs()
		ino := &fsInode{}
		if _, ok := s.names[name]; !ok {
			s.order = append(s.order, name)
		}
		s.names[name] = ino
		return tuple{in.fileValue(&fsHandle{name: name, inode: ino, write: true}), iface{}}
	}
	I["os.OpenFile"] = func(in *Interp, fr *frame, fn *ssa.Function, a []value) value {
		name := in.mustStr(a[0], "os.OpenFile")
		fl, ok := cint(a[1])
		if !ok {
			panic(engineErr("os.OpenFile with symbolic flags"))
		}
		const (
			oWRONLY, oRDWR, oCREATE, oEXCL, oTRUNC, oAPPEND = 0x1, 0x2, 0x40, 0x80, 0x200, 0x400
		)
		in.fsOp("open " + name)
		s := in.fs()
		ino, exists := s.names[name]
		switch {
		case !exists && fl&oCREATE == 0:
			return tuple{(*value)(nil), in.newErr("open "+name+": no such file", in.osErr("ErrNotExist"))}
		case exists && fl&oCREATE != 0 && fl&oEXCL != 0:
			return tuple{(*value)(nil), in.newErr("open "+name+": file exists", in.osErr("ErrExist"))}
		case !exists:
			ino = &fsInode{}
			s.names[name] = ino
			s.order = append(s.order, name)
		}
		if fl&oTRUNC != 0 {
			ino.data, ino.durable = nil, 0
		}
		return tuple{in.fileValue(&fsHandle{name: name, inode: ino, write: fl&(oWRONLY|oRDWR) != 0, app: fl&oAPPEND != 0, inPlace: true}), iface{}}
	}
	I["os.Open"] = func(in *Interp, fr *frame, fn *ssa.Function, a []value) value {
		name := in.mustStr(a[0], "os.Open")
		in.fsOp("open " + name)
		ino, ok := in.fs().names[name]
		if !ok {
			return tuple{(*value)(nil), in.newErr("open "+name+": no such file", in.osErr("ErrNotExist"))}
		}
		return tuple{in.fileValue(&fsHandle{name: name, inode: ino}), iface{}}
	}
	I["os.IsNotExist"] = func(in *Interp, fr *frame, fn *ssa.Function, a []value) value {
		return in.tc.Bool(in.errorsIs(a[0], in.osErr("ErrNotExist")))
	}
	I["(*os.File).Name"] = func(in *Interp, fr *frame, fn *ssa.Function, a []value) value {
		return handleOf(a[0]).name
	}
	I["(*os.File).Write"] = func(in *Interp, fr *frame, fn *ssa.Function, a []value) value {
		h := handleOf(a[0])
		in.fsOp("write " + h.name)
		if h.closed || !h.write {
			return tuple{in.i64(0), in.newErr("write: bad file")}
		}
		b := a[1].([]value)
		if !h.inPlace || h.app {
			h.inode.data = append(h.inode.data, b...)
			h.pos = len(h.inode.data)
			return tuple{in.i64(int64(len(b))), iface{}}
		}
		// write at the handle's position: overwrite what is there, extend at the end
		ino := h.inode
		if h.pos < ino.durable {
			ino.durable = h.pos // the overwritten region is old or new after a crash
		}
		for _, x := range b {
			if h.pos < len(ino.data) {
				ino.data[h.pos] = x
			} else {
				ino.data = append(ino.data, x)
			}
			h.pos++
		}
		return tuple{in.i64(int64(len(b))), iface{}}
	}
	I["(*os.File).Sync"] = func(in *Interp, fr *frame, fn *ssa.Function, a []value) value {
		h := handleOf(a[0])
		in.fsOp("sync " + h.name)
		if h.closed {
			return in.newErr("sync: file closed")
		}
		h.inode.durable = len(h.inode.data)
		return iface{}
	}
	I["(*os.File).Close"] = func(in *Interp, fr *frame, fn *ssa.Function, a []value) value {
		h := handleOf(a[0])
		if h.write {
			in.fsOp("close " + h.name)
		}
		if h.closed {
			return in.newErr("close: already closed")
		}
		h.closed = true
		return iface{}
	}
	I["(*os.File).Read"] = func(in *Interp, fr *frame, fn *ssa.Function, a []value) value {
		h := handleOf(a[0])
		dst := a[1].([]value)
		if h.pos >= len(h.inode.data) {
			return tuple{in.i64(0), in.ioErr("EOF")}
		}
		n := copy(dst, h.inode.data[h.pos:])
		h.pos += n
		return tuple{in.i64(int64(n)), iface{}}
	}
	I["os.Rename"] = func(in *Interp, fr *frame, fn *ssa.Function, a []value) value {
		from, to := in.mustStr(a[0], "os.Rename"), in.mustStr(a[1], "os.Rename")
		in.fsOp("rename " + from + " -> " + to)
		s := in.fs()
		ino, ok := s.names[from]
		if !ok {
			return in.newErr("rename: no such file", in.osErr("ErrNotExist"))
		}
		s.renames = append(s.renames, fsRename{from: from, to: to, prev: s.names[to], inode: ino})
		if _, ok := s.names[to]; !ok {
			s.order = append(s.order, to)
		}
		s.names[to] = ino
		delete(s.names, from)
		return iface{}
	}
	I["os.Remove"] = func(in *Interp, fr *frame, fn *ssa.Function, a []value) value {
		name := in.mustStr(a[0], "os.Remove")
		in.fsOp("remove " + name)
		delete(in.fs().names, name)
		return iface{}
	}
}
