package main

// Native cross-validation and counterexample replay: the same harness files are
// compiled into the real package (go test -overlay) and run against witnesses.

import (
	"bytes"
	"encoding/json"
	"fmt"
	"os"
	"os/exec"
	"path/filepath"
	"sort"
	"strings"
	"time"
)

type witnessFile struct {
	Harness string            `json:"harness"`
	Tier    int               `json:"tier"`
	Vars    map[string]uint64 `json:"vars"`
	Sched   []string          `json:"sched,omitempty"`
	// informational
	Property  string     `json:"property,omitempty"`
	Violated  string     `json:"violated,omitempty"`
	Decisions []string   `json:"decisions,omitempty"`
	Expect    *nativeOut `json:"engine_expectation,omitempty"`
	// for harnesses that only run in the engine (crash model, stubs): the decision
	// prefix that re-executes the counterexample path
	SchedOps     json.RawMessage `json:"sched_ops,omitempty"`
	Ops          []opRec         `json:"ops,omitempty"`
	EngineOnly   bool            `json:"engine_only,omitempty"`
	EnginePrefix []prefixStep    `json:"engine_prefix,omitempty"`
}

type prefixStep struct {
	N      int    `json:"n"`
	Choice int    `json:"choice"`
	Val    uint64 `json:"val"`
	Kind   string `json:"kind"`
	Label  string `json:"label"`
}

type nativeOut struct {
	Harness string `json:"harness"`
	Asserts []struct {
		Name string `json:"name"`
		OK   bool   `json:"ok"`
	} `json:"asserts"`
	Observes []struct {
		Name string `json:"name"`
		Val  string `json:"val"`
	} `json:"observes"`
	Reached     []string `json:"reached"`
	AssumeFail  string   `json:"assume_fail,omitempty"`
	Panic       string   `json:"panic,omitempty"`
	Missing     []string `json:"missing_vars,omitempty"`
	SchedReport string   `json:"sched_report,omitempty"`
	Sequenced   bool     `json:"sequenced,omitempty"`
}

type replayJob struct {
	hr   *HarnessResult
	path *PathResult
	wf   string // witness file
	out  *nativeOut
	err  string
	// sequenced replay: the schedule and the instrumented source files
	schedOps     json.RawMessage
	extraOverlay map[string][]byte
	stalled      string // the sequencer's message if this replay stalled and was repeated without it
}

func makeWitness(prop string, hr *HarnessResult, p *PathResult, tier int) witnessFile {
	w := witnessFile{Harness: hr.Name, Tier: tier, Vars: map[string]uint64{}, Property: prop, Violated: p.Violated, Sched: p.Sched}
	for _, in := range p.Inputs {
		if v, ok := p.Witness[in.Key]; ok {
			w.Vars[in.Key] = v
		}
	}
	for _, e := range p.Exports {
		w.Vars["export:"+e.Name] = e.Val
	}
	for _, d := range p.Decisions {
		w.Decisions = append(w.Decisions, d.kind+"="+d.label)
		w.EnginePrefix = append(w.EnginePrefix, prefixStep{N: d.n, Choice: d.choice, Val: d.val, Kind: d.kind, Label: d.label})
	}
	w.EngineOnly = hr.NoNative
	exp := &nativeOut{Harness: hr.Name, Reached: p.Reached}
	for _, o := range p.Observes {
		exp.Observes = append(exp.Observes, struct {
			Name string `json:"name"`
			Val  string `json:"val"`
		}{o.Name, o.Val})
	}
	w.Expect = exp
	return w
}

const goTestEnvPath = "/usr/local/go/bin:/usr/local/sbin:/usr/local/bin:/usr/sbin:/usr/bin:/sbin:/bin"

// runNative runs all jobs of one package directory in a single go test invocation.
func (r *CheckRun) runNative(pkgDir string, jobs []*replayJob) error {
	if len(jobs) == 0 {
		return nil
	}
	tmp, err := os.MkdirTemp("", "gosmt-replay-")
	if err != nil {
		return err
	}
	if os.Getenv("GOSMT_KEEP") == "" {
		defer os.RemoveAll(tmp)
	} else {
		fmt.Println("keeping", tmp)
	}
	wdir := filepath.Join(tmp, "w")
	os.MkdirAll(wdir, 0o755)
	for i, j := range jobs {
		if j.wf == "" {
			j.wf = filepath.Join(wdir, fmt.Sprintf("%04d.witness.json", i))
			w := makeWitness(r.Prop, j.hr, j.path, r.tierN())
			w.SchedOps = j.schedOps
			b, _ := json.Marshal(w)
			if err := os.WriteFile(j.wf, b, 0o644); err != nil {
				return err
			}
		} else {
			// external witness: copy into the batch dir
			b, err := os.ReadFile(j.wf)
			if err != nil {
				return err
			}
			j.wf = filepath.Join(wdir, fmt.Sprintf("%04d.witness.json", i))
			os.WriteFile(j.wf, b, 0o644)
		}
	}
	// overlay: harness files + vf runtime + generated driver
	ov := map[string]string{}
	var harnessNames []string
	pkgName := ""
	for p, src := range r.overlay {
		if filepath.Dir(p) != filepath.Join(r.Repo, pkgDir) {
			continue
		}
		f := filepath.Join(tmp, filepath.Base(p))
		os.WriteFile(f, src, 0o644)
		ov[p] = f
		if m := pkgClauseRe.FindSubmatch(src); m != nil {
			pkgName = string(m[1])
		}
		for _, m := range harnessFuncRe.FindAllSubmatch(src, -1) {
			harnessNames = append(harnessNames, string(m[1]))
		}
	}
	sort.Strings(harnessNames)
	// sequenced replay: instrumented sources, the sequencer package and its glue
	nExtra := 0
	for _, j := range jobs {
		for p, src := range j.extraOverlay {
			nExtra++
			f := filepath.Join(tmp, fmt.Sprintf("seq%d_%s", nExtra, filepath.Base(p)))
			os.WriteFile(f, src, 0o644)
			ov[p] = f
		}
	}
	if nExtra > 0 {
		seqSrc, err := os.ReadFile(filepath.Join(r.Verif, "harness", "vf", "vfsched.go.src"))
		if err != nil {
			return err
		}
		f := filepath.Join(tmp, "vfsched.go")
		os.WriteFile(f, seqSrc, 0o644)
		ov[filepath.Join(r.Repo, "internal", "vfsched", "vfsched.go")] = f
		glue := fmt.Sprintf("package %s\n\nimport vfsched %q\n\nfunc init() {\n\tvfSchedLoad, vfSchedChild, vfSchedEnter, vfSchedReport, vfSchedStallFile = vfsched.Load, vfsched.ChildID, vfsched.Enter, vfsched.Report, vfsched.SetStallFile\n}\n", pkgName, r.modulePath()+"/internal/vfsched")
		gf := filepath.Join(tmp, "zz_verif_schedglue.go")
		os.WriteFile(gf, []byte(glue), 0o644)
		ov[filepath.Join(r.Repo, pkgDir, "zz_verif_schedglue.go")] = gf
	}
	var drv bytes.Buffer
	fmt.Fprintf(&drv, "package %s\n\nimport (\n\t\"os\"\n\t\"path/filepath\"\n\t\"sort\"\n\t\"strings\"\n\t\"testing\"\n\t\"testing/synctest\"\n)\n\n", pkgName)
	fmt.Fprintf(&drv, "func TestVerifReplay(t *testing.T) {\n\tfns := map[string]func(){\n")
	for _, h := range harnessNames {
		fmt.Fprintf(&drv, "\t\t%q: %s,\n", h, h)
	}
	fmt.Fprintf(&drv, "\t}\n\tfiles, _ := filepath.Glob(filepath.Join(os.Getenv(\"VF_WITNESS_DIR\"), \"*.witness.json\"))\n\tsort.Strings(files)\n")
	fmt.Fprintf(&drv, "\tfor _, w := range files {\n\t\tout := strings.TrimSuffix(w, \".witness.json\") + \".out.json\"\n\t\tsynctest.Test(t, func(t *testing.T) { vfNativeRun(w, out, fns) })\n\t}\n}\n")
	drvFile := filepath.Join(tmp, "zz_verif_driver_test.go")
	os.WriteFile(drvFile, drv.Bytes(), 0o644)
	ov[filepath.Join(r.Repo, pkgDir, "zz_verif_driver_test.go")] = drvFile
	ovJSON, _ := json.Marshal(map[string]any{"Replace": ov})
	ovFile := filepath.Join(tmp, "overlay.json")
	os.WriteFile(ovFile, ovJSON, 0o644)

	cmd := exec.Command("go", "test", "-vet=off", "-count=1", "-timeout", "600s", "-overlay", ovFile, "-run", "^TestVerifReplay$", "./"+pkgDir+"/")
	cmd.Dir = r.Repo
	env := []string{}
	for _, e := range os.Environ() {
		if strings.HasPrefix(e, "PATH=") || strings.HasPrefix(e, "GOTOOLCHAIN=") || strings.HasPrefix(e, "GOFLAGS=") || strings.HasPrefix(e, "GOSUMDB=") {
			continue
		}
		env = append(env, e)
	}
	env = append(env, "PATH="+r.origPath, "GOFLAGS=-mod=mod", "GOPROXY=off", "VF_WITNESS_DIR="+wdir)
	cmd.Env = env
	var outb bytes.Buffer
	cmd.Stdout = &outb
	cmd.Stderr = &outb
	start := time.Now()
	runErr := cmd.Run()
	r.nativeTime += time.Since(start)
	for _, j := range jobs {
		of := strings.TrimSuffix(j.wf, ".witness.json") + ".out.json"
		b, err := os.ReadFile(of)
		if err != nil {
			j.err = "no native output"
			if runErr != nil {
				j.err += " (go test: " + strings.ReplaceAll(firstLines(panicLines(outb.String()), 6), "\n", " | ") + ")"
			}
			continue
		}
		var no nativeOut
		if err := json.Unmarshal(b, &no); err != nil {
			j.err = "bad native output: " + err.Error()
			continue
		}
		j.out = &no
	}
	if runErr != nil {
		var missing []*replayJob
		for _, j := range jobs {
			if j.out == nil {
				missing = append(missing, j)
			}
		}
		if len(missing) == 0 {
			return nil
		}
		// the instrumented sources of the whole batch (attached to one of its jobs)
		union := map[string][]byte{}
		for _, j := range jobs {
			for p, src := range j.extraOverlay {
				union[p] = src
			}
		}
		rerun := func(j *replayJob, sequenced bool) {
			b, err := os.ReadFile(j.wf)
			if err != nil {
				return
			}
			if !sequenced {
				var w witnessFile
				if json.Unmarshal(b, &w) == nil {
					w.SchedOps = nil
					b, _ = json.Marshal(w)
				}
			}
			keep := filepath.Join(os.TempDir(), fmt.Sprintf("gosmt-single-%d.witness.json", os.Getpid()))
			os.WriteFile(keep, b, 0o644)
			defer os.Remove(keep)
			single := &replayJob{hr: j.hr, path: j.path, wf: keep}
			if sequenced && j.schedOps != nil {
				single.extraOverlay = union
			}
			err = r.runNative(pkgDir, []*replayJob{single})
			if single.out != nil {
				j.out = single.out
			} else if err != nil {
				j.err = "native run crashed: " + tail(err.Error(), 12)
			}
		}
		// replays the sequencer gave up on (marker file): once more without it
		var rest []*replayJob
		for _, j := range missing {
			of := strings.TrimSuffix(j.wf, ".witness.json") + ".out.json"
			if msg, err := os.ReadFile(of + ".stalled"); err == nil {
				j.stalled = string(msg)
				rerun(j, false)
				if j.out != nil {
					j.out.SchedReport = j.stalled
				}
				continue
			}
			rest = append(rest, j)
		}
		if len(rest) == 0 {
			return nil
		}
		if len(jobs) == 1 {
			return fmt.Errorf("native run failed (%v):\n%s", runErr, tail(outb.String(), 40))
		}
		if len(rest) < len(jobs) {
			// the run ended early (a stalled schedule or a crash in one witness): the
			// remaining witnesses go through one more batch
			var again []*replayJob
			for _, j := range rest {
				b, err := os.ReadFile(j.wf)
				if err != nil {
					continue
				}
				keep := filepath.Join(os.TempDir(), fmt.Sprintf("gosmt-rest-%d-%d.witness.json", os.Getpid(), len(again)))
				os.WriteFile(keep, b, 0o644)
				defer os.Remove(keep)
				again = append(again, &replayJob{hr: j.hr, path: j.path, wf: keep, schedOps: j.schedOps})
			}
			if len(again) > 0 && len(union) > 0 {
				again[0].extraOverlay = union
			}
			err := r.runNative(pkgDir, again)
			for i, j := range rest {
				if i < len(again) {
					j.out, j.err = again[i].out, again[i].err
				}
			}
			return err
		}
		// nothing at all came back: one by one, so that a single crash cannot hide the others
		if len(rest) > 40 {
			rest = rest[:40]
		}
		for _, j := range rest {
			rerun(j, true)
		}
		return nil
	}
	return nil
}

func tail(s string, n int) string {
	lines := strings.Split(strings.TrimRight(s, "\n"), "\n")
	if len(lines) > n {
		lines = lines[len(lines)-n:]
	}
	return strings.Join(lines, "\n")
}

// compareNative checks a native run of an OK path against the engine's expectation.
func compareNative(p *PathResult, no *nativeOut, twin bool) string {
	if no.Panic != "" {
		return "native run panicked: " + firstLines(no.Panic, 24)
	}
	if no.AssumeFail != "" {
		return "native run failed an assumption the engine considered satisfied"
	}
	if len(no.Missing) > 0 {
		return "native run asked for variables the engine never created: " + strings.Join(no.Missing, ",")
	}
	for _, a := range no.Asserts {
		if !a.OK {
			return "native run failed assertion " + a.Name + " on a path the engine proved safe"
		}
	}
	if twin {
		return ""
	}
	if len(no.Reached) != len(p.Reached) {
		return fmt.Sprintf("reach tags differ: engine %v native %v", p.Reached, no.Reached)
	}
	for i := range no.Reached {
		if no.Reached[i] != p.Reached[i] {
			return fmt.Sprintf("reach tags differ: engine %v native %v", p.Reached, no.Reached)
		}
	}
	if len(no.Observes) != len(p.Observes) {
		return fmt.Sprintf("number of observations differ: engine %d native %d", len(p.Observes), len(no.Observes))
	}
	for i, o := range no.Observes {
		if o.Name != p.Observes[i].Name || o.Val != p.Observes[i].Val {
			return fmt.Sprintf("observation %s differs: engine %s=%s native %s=%s", o.Name, p.Observes[i].Name, p.Observes[i].Val, o.Name, o.Val)
		}
	}
	return ""
}

// violationReproduced checks that the native run fails the same assertion (or panics
// for a panic path).
func violationReproduced(p *PathResult, no *nativeOut) (bool, string) {
	if len(no.Missing) > 0 {
		return false, "native run asked for unknown variables " + strings.Join(no.Missing, ",")
	}
	if p.Outcome == outcomePanic && no.Panic != "" {
		return true, "native panic: " + firstLines(no.Panic, 3)
	}
	// The native run of the real code on the solver's inputs is the ground truth: a
	// failed property assertion or a panic there is a violation even when the engine
	// predicted a different one (the two diverged after the point where the real code
	// already misbehaves, e.g. slicing into spare capacity instead of panicking).
	for _, a := range no.Asserts {
		if !a.OK {
			if a.Name == p.Violated {
				return true, "native run fails assertion " + a.Name
			}
			return true, "native run fails assertion " + a.Name + " (engine predicted " + p.Violated + "/" + p.Outcome.String() + ")"
		}
	}
	if no.Panic != "" {
		return true, "native run panicked (engine predicted " + p.Violated + "): " + firstLines(no.Panic, 4)
	}
	if no.AssumeFail != "" {
		return false, "native run rejected an assumption"
	}
	if p.Outcome == outcomePanic {
		return false, "engine predicted a panic, native run did not panic"
	}
	return false, "native run passed every assertion"
}

// ReplayFile runs one stored witness natively; exit 1 if the violation reproduces.
func (r *CheckRun) ReplayFile(path string) int {
	b, err := os.ReadFile(path)
	if err != nil {
		fmt.Fprintln(os.Stderr, err)
		return 2
	}
	var w witnessFile
	if err := json.Unmarshal(b, &w); err != nil {
		fmt.Fprintln(os.Stderr, "bad witness:", err)
		return 2
	}
	if err := r.buildOverlay(); err != nil {
		fmt.Fprintln(os.Stderr, err)
		return 2
	}
	if w.EngineOnly {
		return r.replayInEngine(&w)
	}
	// find the package directory that defines the harness
	dir := ""
	for p, src := range r.overlay {
		if strings.Contains(string(src), "func "+w.Harness+"()") {
			dir, _ = filepath.Rel(r.Repo, filepath.Dir(p))
		}
	}
	if dir == "" {
		fmt.Fprintln(os.Stderr, "harness not found:", w.Harness)
		return 2
	}
	job := &replayJob{hr: &HarnessResult{Name: w.Harness}, wf: path}
	if len(w.Ops) > 0 && len(w.SchedOps) > 0 {
		// a schedule-dependent counterexample: instrument the same statements again
		_, job.extraOverlay, _ = r.buildSchedule(w.Ops)
	}
	if err := r.runNative(dir, []*replayJob{job}); err != nil {
		fmt.Fprintln(os.Stderr, err)
		return 2
	}
	if job.out == nil {
		fmt.Fprintln(os.Stderr, "no native output:", job.err)
		return 2
	}
	ob, _ := json.MarshalIndent(job.out, "", " ")
	fmt.Println(string(ob))
	for _, a := range job.out.Asserts {
		if !a.OK {
			fmt.Printf("REPRODUCED: assertion %s fails natively (property %s)\n", a.Name, r.Prop)
			return 1
		}
	}
	if job.out.Panic != "" {
		fmt.Printf("REPRODUCED: native panic (property %s)\n", r.Prop)
		return 1
	}
	fmt.Println("not reproduced: every assertion passed natively")
	return 0
}

// replayInEngine re-executes a stored decision prefix symbolically against the
// current tree and reports whether the same assertion is violated again.
func (r *CheckRun) replayInEngine(w *witnessFile) int {
	if err := r.load(); err != nil {
		fmt.Fprintln(os.Stderr, "load:", err)
		return 2
	}
	for _, p := range r.pkgs {
		if p == nil {
			continue
		}
		fn := p.Func(w.Harness)
		if fn == nil {
			continue
		}
		cfg, _, _ := r.harnessCfg(fn)
		cfg.Workers = 1
		cfg.MaxPaths = 1
		ex := NewExplorer(r.prog, fn, cfg)
		ex.tier = w.Tier
		var prefix []decision
		for _, s := range w.EnginePrefix {
			prefix = append(prefix, decision{n: s.N, choice: s.Choice, val: s.Val, kind: s.Kind, label: s.Label})
		}
		ex.RunPrefix(prefix)
		for _, v := range ex.Violations {
			if v.Violated == w.Violated || (w.Violated == "" && v.Outcome == outcomePanic) {
				fmt.Printf("REPRODUCED (engine re-execution): %s\n", v.Msg)
				return 1
			}
		}
		fmt.Println("not reproduced by engine re-execution")
		return 0
	}
	fmt.Fprintln(os.Stderr, "harness not found:", w.Harness)
	return 2
}

// panicLines returns the output from the first panic / fatal error line on.
func panicLines(out string) string {
	for _, mark := range []string{"panic:", "fatal error:", "--- FAIL"} {
		if i := strings.Index(out, mark); i >= 0 {
			return out[i:]
		}
	}
	return tail(out, 6)
}
