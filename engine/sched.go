package main

// Goroutines (as host goroutines holding a baton), channels, select, the virtual
// clock and timers. Switching happens only at modelled synchronisation points;
// which goroutine runs next is a recorded decision, so interleavings at that
// granularity are explored like branches. Time advances only when every goroutine
// is blocked (same rule as testing/synctest, which the native replay uses).

import (
	"fmt"
	"go/token"
	"go/types"
	"strings"

	"golang.org/x/tools/go/ssa"
)

type G struct {
	id      int
	name    string
	top     *frame
	wake    chan struct{}
	done    bool
	blocked func() bool // nil = runnable
	why     string
	initFr  *frame
}

func (g *G) initFrame() *frame {
	if g.top != nil {
		return g.top
	}
	return nil
}

type Chan struct {
	id     int
	cap    int
	buf    []value
	closed bool
	// pending blocked senders (unbuffered or full)
	sendq []*sendReq
	// number of goroutines currently blocked receiving on this channel
	recvWaiters int
	elem        types.Type
	// always: a stub channel that can deliver a value whenever a receiver asks
	// (back-off tickers: "ticks whenever the scheduler picks it")
	always func() value
}

type sendReq struct {
	v    value
	done bool
}

func (c *Chan) Len() int {
	if c == nil {
		return 0
	}
	return len(c.buf)
}

func (in *Interp) newChan(n int, elem types.Type) *Chan {
	in.chanSeq++
	return &Chan{id: in.chanSeq, cap: n, elem: elem}
}

// ---------- scheduling core ----------

func (in *Interp) runnable() []*G {
	var out []*G
	for _, g := range in.gs {
		if g.done {
			continue
		}
		if g.blocked == nil || g.blocked() {
			out = append(out, g)
		}
	}
	return out
}

// switchTo hands the baton to g and parks the current goroutine until it is
// scheduled again.
func (in *Interp) switchTo(g *G) {
	cur := in.curG
	if g == cur {
		return
	}
	in.curG = g
	g.wake <- struct{}{}
	if cur.done {
		return
	}
	<-cur.wake
	if in.aborting {
		panic(pathAbort{"abort"})
	}
}

// schedule picks the next goroutine to run among the runnable ones; if none is
// runnable it advances virtual time; if that is impossible it reports deadlock.
// On return the current goroutine holds the baton and is runnable.
func (in *Interp) schedule(why string) {
	for {
		rs := in.runnable()
		if len(rs) == 0 {
			if in.advanceTime() {
				continue
			}
			in.abortPath(outcomeDeadlock, "all goroutines blocked: "+in.describeBlocked())
		}
		var next *G
		if len(rs) == 1 && !(in.slowUsed < in.cfg.SlowBudget && in.hasActiveTimer()) {
			next = rs[0]
		} else {
			// preemption bound: switching away from a runnable current goroutine costs one
			cur := in.curG
			curRunnable := false
			for _, g := range rs {
				if g == cur {
					curRunnable = true
				}
			}
			if in.cfg.SchedFIFO {
				// one fixed fair schedule: run to block, then the oldest runnable goroutine
				if curRunnable {
					next = cur
				} else {
					next = rs[0]
				}
			} else if curRunnable && in.cfg.PreemptBound >= 0 && in.preemptions >= in.cfg.PreemptBound {
				next = cur
			} else {
				// slow=N: up to N times the clock may move on although some goroutine could
				// run (a goroutine that is descheduled for a while, e.g. between reading the
				// clock and taking a lock): one more alternative, "time passes"
				slow := in.slowUsed < in.cfg.SlowBudget && in.hasActiveTimer()
				n := len(rs)
				if slow {
					n++
				}
				alts := make([]*Term, n)
				for i := range alts {
					alts[i] = in.tc.True()
				}
				labels := make([]string, n)
				for i, g := range rs {
					labels[i] = g.name
				}
				if slow {
					labels[n-1] = "time-passes"
				}
				k := in.decide(alts, "sched@"+why, labels)
				if slow && k == n-1 {
					in.slowUsed++
					if curRunnable {
						in.preemptions++
					}
					in.advanceTime()
					continue
				}
				next = rs[k]
				if curRunnable && next != cur {
					in.preemptions++
				}
			}
		}
		in.schedTrace = append(in.schedTrace, fmt.Sprintf("%s@%s", next.name, why))
		if next != in.curG {
			in.switchTo(next)
			// we were woken: we hold the baton again and were chosen as runnable
		}
		in.curG.blocked = nil
		return
	}
}

// yield is a potential context switch at a synchronisation point.
func (in *Interp) yield(why string) {
	if in.initDepth > 0 {
		return
	}
	in.yield0(why)
	in.recordOp(why, 0)
}

func (in *Interp) yield0(why string) {
	if len(in.gs) <= 1 || in.initDepth > 0 {
		return
	}
	alive := 0
	for _, g := range in.gs {
		if !g.done {
			alive++
		}
	}
	if alive <= 1 {
		return
	}
	in.schedule(why)
}

// opRec is one visible operation in execution order: which goroutine arrived at
// which synchronisation point. Where lists the source positions of the operation
// from the innermost frame outwards (repository and harness files only); the native
// sequencer instruments the first one it can.
type opRec struct {
	G     int      `json:"g"`
	Kind  string   `json:"kind"`
	Where []string `json:"where,omitempty"`
	Child int      `json:"child,omitempty"` // for "go": the id of the goroutine created
}

func (in *Interp) recordOp(kind string, child int) {
	if len(in.opTrace) > 20000 {
		return
	}
	rec := opRec{G: in.curG.id, Kind: kind, Child: child}
	for fr := in.curG.top; fr != nil; fr = fr.caller {
		if fr.cur == nil || fr.fn == nil {
			continue
		}
		pos := fr.cur.Pos()
		if !pos.IsValid() {
			continue
		}
		p := in.prog.Fset.Position(pos)
		if !strings.HasPrefix(p.Filename, in.cfg.RepoDir+"/") {
			continue
		}
		rec.Where = append(rec.Where, fmt.Sprintf("%s:%d:%d#%d.%d", strings.TrimPrefix(p.Filename, in.cfg.RepoDir+"/"), p.Line, p.Column, fr.serial, fr.icount))
		if len(rec.Where) >= 4 {
			break
		}
	}
	in.opTrace = append(in.opTrace, rec)
}

// block parks the current goroutine until ready() holds.
func (in *Interp) block(why string, ready func() bool) {
	if ready() {
		return
	}
	in.curG.blocked = ready
	in.curG.why = why
	in.schedule(why)
}

func (in *Interp) describeBlocked() string {
	s := ""
	for _, g := range in.gs {
		if !g.done {
			s += fmt.Sprintf("[%s: %s] ", g.name, g.why)
		}
	}
	return s
}

func (in *Interp) spawn(fr *frame, pos token.Pos, fn value, args []value, cc *ssa.CallCommon) {
	in.spawnNamed(fr, pos, fn, args, cc, "", true)
}

func (in *Interp) spawnNamed(fr *frame, pos token.Pos, fn value, args []value, cc *ssa.CallCommon, name string, doYield bool) *G {
	id := len(in.gs)
	if name == "" {
		name = fmt.Sprintf("g%d", id)
	}
	g := &G{id: id, name: name, wake: make(chan struct{}, 1)}
	in.gs = append(in.gs, g)
	if len(in.gs) > in.cfg.MaxGoroutines {
		in.abortPath(outcomeBound, "goroutine bound exceeded"+in.where(fr, pos))
	}
	in.hostWG.Add(1)
	go func() {
		defer in.hostWG.Done()
		<-g.wake
		if in.aborting {
			return
		}
		defer func() {
			r := recover()
			if r == nil {
				return
			}
			if in.aborting {
				return
			}
			// a failure in a goroutine ends the path: hand it to the main goroutine
			in.failFromGoroutine(r)
		}()
		in.call(nil, pos, fn, args, cc)
		g.done = true
		in.goroutineExit()
	}()
	if in.initDepth == 0 {
		in.recordOp("go", g.id)
	}
	if doYield {
		in.yield0("go")
	}
	return g
}

// goroutineExit is called by a finished non-main goroutine to pass the baton on.
func (in *Interp) goroutineExit() {
	for {
		rs := in.runnable()
		if len(rs) == 0 {
			if in.advanceTime() {
				continue
			}
			// nobody can run: the main goroutine is blocked forever
			in.failFromGoroutine(pathAbort{"deadlock"})
			return
		}
		k := 0
		if len(rs) > 1 && !in.cfg.SchedFIFO {
			alts := make([]*Term, len(rs))
			labels := make([]string, len(rs))
			for i, g := range rs {
				alts[i] = in.tc.True()
				labels[i] = g.name
			}
			k = in.decideFromExit(alts, labels)
			if k < 0 {
				return
			}
		}
		next := rs[k]
		next.blocked = nil
		in.schedTrace = append(in.schedTrace, next.name+"@exit")
		in.curG = next
		next.wake <- struct{}{}
		return
	}
}

// decideFromExit is decide() for a goroutine that has finished: path aborts
// raised inside must be forwarded to the main goroutine.
func (in *Interp) decideFromExit(alts []*Term, labels []string) (k int) {
	defer func() {
		if r := recover(); r != nil {
			in.failFromGoroutine(r)
			k = -1
		}
	}()
	return in.decide(alts, "sched@exit", labels)
}

// failFromGoroutine transfers a failure raised in a non-main goroutine to the
// main goroutine, which owns the path result.
func (in *Interp) failFromGoroutine(r any) {
	in.mu.Lock()
	if in.gfail == nil {
		in.gfail = r
	}
	in.mu.Unlock()
	main := in.gs[0]
	in.curG.done = true
	in.curG = main
	in.aborting = true
	select {
	case main.wake <- struct{}{}:
	default:
	}
}

// killGoroutines releases every parked host goroutine at the end of a path.
func (in *Interp) killGoroutines() {
	in.aborting = true
	for _, g := range in.gs[1:] {
		select {
		case g.wake <- struct{}{}:
		default:
		}
	}
	in.hostWG.Wait()
}

// ---------- channels ----------

func (c *Chan) canRecv() bool {
	return len(c.buf) > 0 || len(c.sendq) > 0 || c.closed || c.always != nil
}

func (c *Chan) canSend() bool {
	if c.closed {
		return true // will panic
	}
	if len(c.buf) < c.cap {
		return true
	}
	return c.cap == 0 && c.recvWaiters > 0 && len(c.buf) == 0
}

func (in *Interp) chanSend(fr *frame, c *Chan, v value) {
	in.yield("send")
	if c == nil {
		in.block("send on nil chan", func() bool { return false })
	}
	if c.closed {
		in.targetPanicf(fr, "send on closed channel")
	}
	if len(c.buf) < c.cap {
		c.buf = append(c.buf, copyVal(v))
		return
	}
	req := &sendReq{v: copyVal(v)}
	c.sendq = append(c.sendq, req)
	in.block("chan send", func() bool { return req.done || c.closed })
	if !req.done {
		in.targetPanicf(fr, "send on closed channel")
	}
}

func (c *Chan) take() value {
	if c.always != nil && len(c.buf) == 0 && len(c.sendq) == 0 {
		return c.always()
	}
	if len(c.buf) > 0 {
		v := c.buf[0]
		c.buf = c.buf[1:]
		if len(c.sendq) > 0 {
			r := c.sendq[0]
			c.sendq = c.sendq[1:]
			c.buf = append(c.buf, r.v)
			r.done = true
		}
		return v
	}
	r := c.sendq[0]
	c.sendq = c.sendq[1:]
	r.done = true
	return r.v
}

func (in *Interp) chanRecv(fr *frame, c *Chan, commaOk bool, elem types.Type) value {
	in.yield("recv")
	if c == nil {
		in.block("recv on nil chan", func() bool { return false })
	}
	if !c.canRecv() {
		c.recvWaiters++
		in.block("chan recv", c.canRecv)
		c.recvWaiters--
	}
	var v value
	ok := true
	if len(c.buf) > 0 || len(c.sendq) > 0 || (c.always != nil && !c.closed) {
		v = c.take()
	} else {
		v = in.zero(elem)
		ok = false
	}
	if commaOk {
		return tuple{v, in.tc.Bool(ok)}
	}
	return v
}

func (in *Interp) chanClose(fr *frame, c *Chan) {
	in.yield("close")
	if c == nil {
		in.targetPanicf(fr, "close of nil channel")
	}
	if c.closed {
		in.targetPanicf(fr, "close of closed channel")
	}
	c.closed = true
}

func (in *Interp) selectStmt(fr *frame, instr *ssa.Select) value {
	in.yield("select")
	type st struct {
		c    *Chan
		send bool
		v    value
	}
	states := make([]st, len(instr.States))
	for i, s := range instr.States {
		c, _ := fr.get(s.Chan).(*Chan)
		states[i] = st{c: c, send: s.Dir == types.SendOnly}
		if states[i].send {
			states[i].v = fr.get(s.Send)
		}
	}
	ready := func() []int {
		var rs []int
		for i, s := range states {
			if s.c == nil {
				continue
			}
			if s.send && s.c.canSend() || !s.send && s.c.canRecv() {
				rs = append(rs, i)
			}
		}
		return rs
	}
	rs := ready()
	chosen := -1
	if len(rs) == 0 {
		if !instr.Blocking {
			chosen = -1
		} else {
			for _, s := range states {
				if s.c != nil && !s.send {
					s.c.recvWaiters++
				}
			}
			in.block("select", func() bool { return len(ready()) > 0 })
			for _, s := range states {
				if s.c != nil && !s.send {
					s.c.recvWaiters--
				}
			}
			rs = ready()
		}
	}
	if len(rs) > 0 {
		k := 0
		if len(rs) > 1 {
			alts := make([]*Term, len(rs))
			labels := make([]string, len(rs))
			for i := range alts {
				alts[i] = in.tc.True()
				labels[i] = fmt.Sprintf("case%d", rs[i])
			}
			k = in.decide(alts, "select@"+in.posString(instr.Pos()), labels)
		}
		chosen = rs[k]
	}
	r := tuple{in.tc.Const(64, uint64(int64(chosen))), in.tc.False()}
	var recvOk bool
	var recvVal value
	if chosen >= 0 {
		s := states[chosen]
		if s.send {
			if s.c.closed {
				in.targetPanicf(fr, "send on closed channel")
			}
			if len(s.c.buf) < s.c.cap {
				s.c.buf = append(s.c.buf, copyVal(s.v))
			} else {
				// hand-off to a waiting receiver through the buffer
				s.c.buf = append(s.c.buf, copyVal(s.v))
			}
		} else {
			if len(s.c.buf) > 0 || len(s.c.sendq) > 0 || (s.c.always != nil && !s.c.closed) {
				recvVal = s.c.take()
				recvOk = true
			}
		}
	}
	r[1] = in.tc.Bool(recvOk)
	for i, s := range instr.States {
		if s.Dir == types.RecvOnly {
			if i == chosen && recvOk {
				r = append(r, recvVal)
			} else {
				r = append(r, in.zero(under(s.Chan.Type()).(*types.Chan).Elem()))
			}
		}
	}
	return r
}

// ---------- virtual clock and timers ----------

// Instant is an absolute time: internal seconds (since year 1) and nanoseconds.
type Instant struct {
	sec  *Term // 64-bit, signed
	nsec *Term // 64-bit, in [0,1e9)
}

const unixToInternal = 62135596800
const clockEpochUnix = 946684800 // 2000-01-01T00:00:00Z, the synctest epoch

type Timer struct {
	id       int
	base     Instant // clock at creation, if deadline = base + (non-negative delay)
	fromBase bool
	deadline Instant
	active   bool
	period   *Term // nil for one-shot; 64-bit duration
	ch       *Chan
	fn       func() // called when the timer fires (AfterFunc, ctx deadline, sleep)
	what     string
}

func (in *Interp) instLE(a, b Instant) *Term {
	tc := in.tc
	return tc.Or(tc.Slt(a.sec, b.sec), tc.And(tc.Eq(a.sec, b.sec), tc.Ule(a.nsec, b.nsec)))
}

func (in *Interp) instLT(a, b Instant) *Term {
	tc := in.tc
	return tc.Or(tc.Slt(a.sec, b.sec), tc.And(tc.Eq(a.sec, b.sec), tc.Ult(a.nsec, b.nsec)))
}

// instAdd returns t + d (d a 64-bit signed duration in ns).
func (in *Interp) instAdd(t Instant, d *Term) Instant {
	tc := in.tc
	e9 := tc.Const(64, 1e9)
	dsec, dns := tc.DivModConst(d, 1e9, true)
	ns := tc.Add(t.nsec, dns) // in (-1e9, 2e9)
	sec := tc.Add(t.sec, dsec)
	over := tc.Sle(e9, ns)
	under := tc.Slt(ns, tc.Const(64, 0))
	ns2 := tc.Ite(over, tc.Sub(ns, e9), tc.Ite(under, tc.Add(ns, e9), ns))
	sec2 := tc.Ite(over, tc.Add(sec, tc.Const(64, 1)), tc.Ite(under, tc.Sub(sec, tc.Const(64, 1)), sec))
	ns2 = tc.WithRange(ns2, 0, 999999999)
	return Instant{sec: sec2, nsec: ns2}
}

func (in *Interp) newTimer(d *Term, what string) *Timer {
	in.timerSeq++
	t := &Timer{id: in.timerSeq, deadline: in.instAdd(in.clock, d), active: true, what: what, base: in.clock, fromBase: nonNeg(d)}
	in.timers = append(in.timers, t)
	return t
}

// advanceTime fires the earliest active timer, moving the clock forward.
// Returns false if there is no active timer.
func (in *Interp) hasActiveTimer() bool {
	for _, t := range in.timers {
		if t.active {
			return true
		}
	}
	return false
}

func (in *Interp) advanceTime() bool {
	var act []*Timer
	for _, t := range in.timers {
		if t.active {
			act = append(act, t)
		}
	}
	if len(act) == 0 {
		return false
	}
	k := 0
	if len(act) > 1 {
		alts := make([]*Term, len(act))
		labels := make([]string, len(act))
		for i, ti := range act {
			var cs []*Term
			for j, tj := range act {
				if j < i {
					cs = append(cs, in.instLT(ti.deadline, tj.deadline))
				} else if j > i {
					cs = append(cs, in.instLE(ti.deadline, tj.deadline))
				}
			}
			alts[i] = in.tc.And(cs...)
			labels[i] = ti.what
		}
		k = in.decide(alts, "timer", labels)
	}
	t := act[k]
	// clock = max(clock, deadline)
	if t.fromBase && t.base.sec == in.clock.sec && t.base.nsec == in.clock.nsec {
		// the clock has not moved since the timer was armed with a non-negative delay
		in.clock = t.deadline
	} else {
		later := in.instLT(in.clock, t.deadline)
		in.clock = Instant{sec: in.tc.Ite(later, t.deadline.sec, in.clock.sec), nsec: in.tc.WithRange(in.tc.Ite(later, t.deadline.nsec, in.clock.nsec), 0, 999999999)}
	}
	in.fireTimer(t)
	return true
}

func (in *Interp) fireTimer(t *Timer) {
	in.timerFires++
	if in.timerFires > in.cfg.MaxTimerFires {
		in.abortPath(outcomeBound, "timer firing bound exceeded ("+t.what+")")
	}
	if t.period != nil {
		t.deadline = in.instAdd(t.deadline, t.period)
	} else {
		t.active = false
	}
	if t.ch != nil && len(t.ch.buf) < t.ch.cap {
		t.ch.buf = append(t.ch.buf, in.timeValue(in.clock))
	}
	if t.fn != nil {
		t.fn()
	}
}

// sleep blocks the current goroutine for d of virtual time.
func (in *Interp) sleep(d *Term) {
	tc := in.tc
	if d.IsConst() && signExt(d.c, 64) <= 0 {
		in.yield("sleep0")
		return
	}
	woke := false
	if !nonNeg(d) {
		d = tc.Ite(tc.Slt(d, tc.Const(64, 0)), tc.Const(64, 0), d)
	}
	t := in.newTimer(d, "sleep")
	t.fn = func() { woke = true }
	in.block("sleep", func() bool { return woke })
}
