package main

import (
	"flag"
	"fmt"
	"os"
	"path/filepath"
	"sort"
	"strings"
	"time"
)

var origPATH = os.Getenv("PATH")

func main() {
	// the loader shells out to `go list`; it must be the go1.26.8 toolchain
	os.Setenv("PATH", "/opt/veriftools/go1.26.8/bin:"+os.Getenv("PATH"))
	os.Setenv("GOTOOLCHAIN", "local")
	os.Setenv("GOFLAGS", "-mod=mod")
	os.Setenv("GOPROXY", "off")
	os.Setenv("GOWORK", "off")
	if len(os.Args) < 2 {
		fmt.Fprintln(os.Stderr, "usage: gosmt check|list ...")
		os.Exit(2)
	}
	switch os.Args[1] {
	case "check":
		os.Exit(cmdCheck(os.Args[2:]))
	case "replay":
		os.Exit(cmdReplay(os.Args[2:]))
	default:
		fmt.Fprintln(os.Stderr, "unknown command", os.Args[1])
		os.Exit(2)
	}
}

func cmdCheck(args []string) int {
	fs := flag.NewFlagSet("check", flag.ExitOnError)
	prop := fs.String("prop", "", "property id (e.g. C10)")
	tier := fs.String("tier", "quick", "quick or thorough")
	repo := fs.String("repo", "/repo", "repository root")
	verif := fs.String("verif", "/verif", "verification root")
	only := fs.String("only", "", "run only harness functions whose name contains this")
	workers := fs.Int("workers", 16, "worker count")
	noReplay := fs.Bool("no-replay", false, "skip native validation/replay")
	verbose := fs.Bool("v", false, "verbose")
	arith := fs.String("arith", "", "force arithmetic encoding: int or bv")
	solverKind := fs.String("solver", "", "z3, z3-new or cvc5 (default: per tier)")
	fs.Parse(args)
	if *prop == "" {
		fmt.Fprintln(os.Stderr, "need -prop")
		return 2
	}
	if t := os.Getenv("VERIF_TIER"); t != "" && !flagSet(fs, "tier") {
		*tier = t
	}
	start := time.Now()
	run := &CheckRun{Prop: *prop, Tier: *tier, Repo: *repo, Verif: *verif, Only: *only, Workers: *workers, NoReplay: *noReplay, Verbose: *verbose, Solver: *solverKind, Arith: *arith}
	code := run.Execute()
	fmt.Printf("[%s] %s tier=%s exit=%d wall=%.1fs\n", *prop, verdictWord(code), *tier, code, time.Since(start).Seconds())
	return code
}

func flagSet(fs *flag.FlagSet, name string) bool {
	found := false
	fs.Visit(func(f *flag.Flag) {
		if f.Name == name {
			found = true
		}
	})
	return found
}

func verdictWord(code int) string {
	switch code {
	case 0:
		return "PASS"
	case 1:
		return "VIOLATION"
	}
	return "INCONCLUSIVE"
}

// harnessDirs lists <verif>/harness/<prop>/<pkgpath...>/ directories with .go files.
func harnessFiles(verif, prop string) (map[string][]string, error) {
	root := filepath.Join(verif, "harness", prop)
	out := map[string][]string{}
	err := filepath.Walk(root, func(p string, info os.FileInfo, err error) error {
		if err != nil {
			return err
		}
		if info.IsDir() || !strings.HasSuffix(p, ".go") {
			return nil
		}
		rel, _ := filepath.Rel(root, filepath.Dir(p))
		out[rel] = append(out[rel], p)
		return nil
	})
	for _, v := range out {
		sort.Strings(v)
	}
	return out, err
}

// cmdReplay re-runs a stored counterexample witness natively against /repo.
func cmdReplay(args []string) int {
	fs := flag.NewFlagSet("replay", flag.ExitOnError)
	prop := fs.String("prop", "", "property id")
	file := fs.String("file", "", "witness file written by a check")
	repo := fs.String("repo", "/repo", "repository root")
	verif := fs.String("verif", "/verif", "verification root")
	fs.Parse(args)
	if *prop == "" || *file == "" {
		fmt.Fprintln(os.Stderr, "need -prop and -file")
		return 2
	}
	r := &CheckRun{Prop: *prop, Tier: "quick", Repo: *repo, Verif: *verif, origPath: origPATH}
	return r.ReplayFile(*file)
}
