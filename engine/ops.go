package main

import (
	"fmt"
	"go/token"
	"go/types"
	"math"
	"strings"
	"unicode/utf8"

	"golang.org/x/tools/go/ssa"
)

func (in *Interp) load(fr *frame, instr ssa.Instruction, p value) value {
	switch p := p.(type) {
	case *value:
		if p == nil {
			in.targetPanicf(fr, "nil pointer dereference (load)%s", in.where(fr, instr.Pos()))
		}
		return copyVal(*p)
	case *Opaque:
		panic(engineErr("load through opaque %s%s", p.name, in.where(fr, instr.Pos())))
	}
	panic(engineErr("load through %T%s", p, in.where(fr, instr.Pos())))
}

func (in *Interp) unop(fr *frame, instr *ssa.UnOp, x value) value {
	tc := in.tc
	switch instr.Op {
	case token.ARROW:
		return in.chanRecv(fr, x.(*Chan), instr.CommaOk, under(instr.X.Type()).(*types.Chan).Elem())
	case token.SUB:
		switch x := x.(type) {
		case *Term:
			return tc.Neg(x)
		case Float:
			return Float{v: -x.v, opaque: x.opaque}
		}
	case token.MUL:
		return in.load(fr, instr, x)
	case token.NOT:
		return tc.Not(x.(*Term))
	case token.XOR:
		return tc.Bnot(x.(*Term))
	}
	panic(engineErr("invalid unary op %s %T", instr.Op, x))
}

func (in *Interp) binop(fr *frame, instr ssa.Instruction, op token.Token, t types.Type, x, y value) value {
	tc := in.tc
	switch op {
	case token.EQL:
		return in.equals(t, x, y)
	case token.NEQ:
		return tc.Not(in.equals(t, x, y))
	}
	switch xv := x.(type) {
	case *Term:
		yv := y.(*Term)
		if xv.w == 0 {
			switch op {
			case token.AND, token.LAND:
				return tc.And(xv, yv)
			case token.OR, token.LOR:
				return tc.Or(xv, yv)
			case token.XOR:
				return tc.Not(tc.Eq(xv, yv))
			}
			panic(engineErr("bool binop %s", op))
		}
		_, signed, _ := isInt(t)
		switch op {
		case token.ADD:
			return tc.Add(xv, yv)
		case token.SUB:
			return tc.Sub(xv, yv)
		case token.MUL:
			return tc.Mul(xv, yv)
		case token.QUO, token.REM:
			if yv.IsConst() {
				if yv.c == 0 {
					in.targetPanicf(fr, "integer divide by zero%s", in.where(fr, instr.Pos()))
				}
				k := yv.c
				neg := false
				if signed && signExt(k, yv.w) < 0 {
					k = uint64(-signExt(k, yv.w))
					neg = true
				}
				q, r := tc.DivModConst(xv, k, signed)
				if op == token.REM {
					return r
				}
				if neg {
					return tc.Neg(q)
				}
				return q
			}
			// symbolic divisor: fork on zero
			if in.branch(tc.Eq(yv, tc.Const(yv.w, 0)), in.posString(instr.Pos())+" div0") {
				in.targetPanicf(fr, "integer divide by zero%s", in.where(fr, instr.Pos()))
			}
			switch {
			case op == token.QUO && signed:
				return tc.binRaw(OpSdiv, xv, yv)
			case op == token.QUO:
				return tc.binRaw(OpUdiv, xv, yv)
			case signed:
				return tc.binRaw(OpSrem, xv, yv)
			default:
				return tc.binRaw(OpUrem, xv, yv)
			}
		case token.AND:
			return tc.binRaw(OpBand, xv, yv)
		case token.OR:
			return tc.binRaw(OpBor, xv, yv)
		case token.XOR:
			return tc.binRaw(OpBxor, xv, yv)
		case token.AND_NOT:
			return tc.binRaw(OpBand, xv, tc.Bnot(yv))
		case token.SHL, token.SHR:
			// shift count may have another width / signedness
			cnt := yv
			if cnt.w != xv.w {
				if cnt.w > xv.w {
					big := tc.Not(tc.Ult(cnt, tc.Const(cnt.w, uint64(xv.w))))
					cnt = tc.Ite(big, tc.Const(xv.w, uint64(xv.w)), tc.Extract(cnt, xv.w-1, 0))
				} else {
					cnt = tc.Zext(cnt, xv.w)
				}
			}
			if op == token.SHL {
				return tc.binRaw(OpShl, xv, cnt)
			}
			if signed {
				return tc.binRaw(OpAshr, xv, cnt)
			}
			return tc.binRaw(OpLshr, xv, cnt)
		case token.LSS:
			if signed {
				return tc.Slt(xv, yv)
			}
			return tc.Ult(xv, yv)
		case token.LEQ:
			if signed {
				return tc.Sle(xv, yv)
			}
			return tc.Ule(xv, yv)
		case token.GTR:
			if signed {
				return tc.Slt(yv, xv)
			}
			return tc.Ult(yv, xv)
		case token.GEQ:
			if signed {
				return tc.Sle(yv, xv)
			}
			return tc.Ule(yv, xv)
		}
	case Float:
		yv := y.(Float)
		op2 := xv.opaque || yv.opaque
		switch op {
		case token.ADD:
			return Float{v: xv.v + yv.v, opaque: op2}
		case token.SUB:
			return Float{v: xv.v - yv.v, opaque: op2}
		case token.MUL:
			return Float{v: xv.v * yv.v, opaque: op2}
		case token.QUO:
			return Float{v: xv.v / yv.v, opaque: op2}
		}
		if op2 {
			panic(engineErr("comparison of opaque float%s", in.where(fr, instr.Pos())))
		}
		switch op {
		case token.LSS:
			return tc.Bool(xv.v < yv.v)
		case token.LEQ:
			return tc.Bool(xv.v <= yv.v)
		case token.GTR:
			return tc.Bool(xv.v > yv.v)
		case token.GEQ:
			return tc.Bool(xv.v >= yv.v)
		}
	case string, *SymStr:
		xs, xok := concreteStr(x)
		ys, yok := concreteStr(y)
		if xok && yok {
			switch op {
			case token.ADD:
				return xs + ys
			case token.LSS:
				return tc.Bool(xs < ys)
			case token.LEQ:
				return tc.Bool(xs <= ys)
			case token.GTR:
				return tc.Bool(xs > ys)
			case token.GEQ:
				return tc.Bool(xs >= ys)
			}
		}
		a, b := in.toSymStr(x), in.toSymStr(y)
		switch op {
		case token.ADD:
			out := make([]*Term, 0, len(a.b)+len(b.b))
			out = append(out, a.b...)
			out = append(out, b.b...)
			return &SymStr{b: out}
		case token.LSS:
			return in.symStrLess(a, b, false)
		case token.LEQ:
			return in.symStrLess(a, b, true)
		case token.GTR:
			return in.symStrLess(b, a, false)
		case token.GEQ:
			return in.symStrLess(b, a, true)
		}
	}
	panic(engineErr("invalid binary op: %T %s %T%s", x, op, y, in.where(fr, instr.Pos())))
}

func (in *Interp) symStrLess(a, b *SymStr, orEq bool) *Term {
	tc := in.tc
	// lexicographic
	n := min(len(a.b), len(b.b))
	var res *Term
	if len(a.b) < len(b.b) || (orEq && len(a.b) == len(b.b)) {
		res = tc.True()
	} else {
		res = tc.False()
	}
	for i := n - 1; i >= 0; i-- {
		res = tc.Ite(tc.Eq(a.b[i], b.b[i]), res, tc.Ult(a.b[i], b.b[i]))
	}
	return res
}

// conv implements ssa.Convert.
func (in *Interp) conv(tDst, tSrc types.Type, x value) value {
	tc := in.tc
	ud, us := under(tDst), under(tSrc)
	switch ud := ud.(type) {
	case *types.Pointer:
		switch x := x.(type) {
		case unsafePtr:
			if x.p == nil {
				return (*value)(nil)
			}
			return x.p
		case *value:
			return x
		}
	case *types.Slice:
		// string -> []byte / []rune
		if isString(us) {
			eb := basicOf(ud.Elem())
			s := in.toSymStr(x)
			if eb != nil && eb.Kind() == types.Uint8 {
				out := make([]value, len(s.b))
				for i, b := range s.b {
					out[i] = b
				}
				return out
			}
			cs, ok := concreteStr(x)
			if !ok {
				out := []value{}
				for i := 0; i < len(s.b); {
					r, n := in.decodeRuneSym(s.b[i:])
					out = append(out, r)
					i += n
				}
				// no spare capacity: code must not rely on what the runtime happens to allocate
				return out[:len(out):len(out)]
			}
			var out []value
			for _, r := range cs {
				out = append(out, tc.Const(32, uint64(r)))
			}
			if out == nil {
				out = []value{}
			}
			return out[:len(out):len(out)]
		}
		return x
	case *types.Basic:
		if ud.Kind() == types.UnsafePointer {
			switch x := x.(type) {
			case unsafePtr:
				return x
			case *value:
				if x == nil {
					return unsafePtr{}
				}
				return unsafePtr{p: x}
			}
			panic(engineErr("conversion of %T to unsafe.Pointer", x))
		}
		if ud.Info()&types.IsString != 0 {
			switch xv := x.(type) {
			case string, *SymStr:
				return x
			case *Term: // rune/int -> string
				if !xv.IsConst() {
					return &SymStr{b: in.encodeRuneSym(tc.Resize(xv, 32, true))}
				}
				_, signed, _ := isInt(us)
				v := int64(xv.c)
				if signed {
					v = signExt(xv.c, xv.w)
				}
				if v < 0 || v > utf8.MaxRune {
					return string(utf8.RuneError)
				}
				return string(rune(v))
			case []value:
				eb := basicOf(under(us).(*types.Slice).Elem())
				if eb.Kind() == types.Uint8 {
					out := &SymStr{b: make([]*Term, len(xv))}
					for i, b := range xv {
						out.b[i] = b.(*Term)
					}
					if s, ok := concreteStr(out); ok {
						return s
					}
					return out
				}
				rs := make([]rune, len(xv))
				allConst := true
				for i, r := range xv {
					t := r.(*Term)
					if !t.IsConst() {
						allConst = false
						break
					}
					rs[i] = rune(signExt(t.c, 32))
				}
				if allConst {
					return string(rs)
				}
				out := &SymStr{}
				for _, r := range xv {
					out.b = append(out.b, in.encodeRuneSym(r.(*Term))...)
				}
				return out
			}
		}
		if w, signedDst, ok := intWidth(ud); ok && w > 0 {
			switch xv := x.(type) {
			case msgByte, padByte:
				return tc.Const(w, 0)
			case *Term:
				_, signedSrc, _ := isInt(us)
				return tc.Resize(xv, w, signedSrc)
			case Float:
				if xv.opaque {
					return tc.Fresh("f2i", w)
				}
				if signedDst {
					return tc.Const(w, uint64(int64(xv.v)))
				}
				return tc.Const(w, uint64(xv.v))
			case unsafePtr:
				panic(engineErr("uintptr(unsafe.Pointer)"))
			}
		}
		if ud.Info()&types.IsFloat != 0 {
			switch xv := x.(type) {
			case Float:
				if ud.Kind() == types.Float32 {
					return Float{v: float64(float32(xv.v)), opaque: xv.opaque}
				}
				return xv
			case *Term:
				if !xv.IsConst() {
					return Float{opaque: true}
				}
				_, signedSrc, _ := isInt(us)
				if signedSrc {
					return Float{v: float64(signExt(xv.c, xv.w))}
				}
				return Float{v: float64(xv.c)}
			}
		}
	}
	panic(engineErr("unsupported conversion %s -> %s (%T)", tSrc, tDst, x))
}

// ---------- maps ----------

func (in *Interp) mapFind(m *Map, key value, where string) *mapEntry {
	if m == nil {
		return nil
	}
	ck, conc := concreteKey(key)
	if conc {
		if e, ok := m.index[ck]; ok && !e.deleted {
			return e
		}
		if m.nsym == 0 {
			return nil
		}
	}
	// compare against every entry that could be equal
	for _, e := range m.entries {
		if e.deleted || (conc && e.concrete) {
			continue
		}
		c := in.equalsDyn(key, e.key)
		if c.IsConst() {
			if c.c == 1 {
				return e
			}
			continue
		}
		if in.branch(c, where+" mapkey") {
			return e
		}
	}
	return nil
}

// equalsDyn compares two values of the same (unknown) static type.
func (in *Interp) equalsDyn(x, y value) *Term {
	switch x := x.(type) {
	case structure:
		ys := y.(structure)
		var cs []*Term
		for i := range x {
			cs = append(cs, in.equalsDyn(x[i], ys[i]))
		}
		return in.tc.And(cs...)
	case array:
		ya := y.(array)
		var cs []*Term
		for i := range x {
			cs = append(cs, in.equalsDyn(x[i], ya[i]))
		}
		return in.tc.And(cs...)
	case iface:
		yi := y.(iface)
		if x.t == nil || yi.t == nil {
			return in.tc.Bool(x.t == nil && yi.t == nil)
		}
		if !types.Identical(x.t, yi.t) {
			return in.tc.False()
		}
		return in.equalsDyn(x.v, yi.v)
	}
	return in.equals(nil, x, y)
}

func (in *Interp) mapSet(m *Map, key, val value) {
	if e := in.mapFind(m, key, "mapupdate"); e != nil {
		e.val = val
		return
	}
	ck, conc := concreteKey(key)
	e := &mapEntry{key: key, val: val, ckey: ck, concrete: conc}
	m.entries = append(m.entries, e)
	if conc {
		m.index[ck] = e
	} else {
		m.nsym++
	}
}

func (in *Interp) mapDelete(m *Map, key value) {
	if m == nil {
		return
	}
	if e := in.mapFind(m, key, "mapdelete"); e != nil {
		e.deleted = true
		if e.concrete {
			delete(m.index, e.ckey)
		} else {
			m.nsym--
		}
		m.compact()
	}
}

func (in *Interp) lookup(fr *frame, instr *ssa.Lookup, x, idx value) value {
	m := x.(*Map)
	var v value
	ok := false
	if e := in.mapFind(m, idx, in.posString(instr.Pos())); e != nil {
		v, ok = copyVal(e.val), true
	} else {
		v = in.zero(under(instr.X.Type()).(*types.Map).Elem())
	}
	if instr.CommaOk {
		return tuple{v, in.tc.Bool(ok)}
	}
	return v
}

// ---------- range iterators ----------

type iter interface {
	next(in *Interp) tuple
}

type mapIter struct {
	m       *Map
	entries []*mapEntry
	i       int
}

func (it *mapIter) next(in *Interp) tuple {
	for it.i < len(it.entries) {
		e := it.entries[it.i]
		it.i++
		if e.deleted {
			continue
		}
		return tuple{in.tc.True(), e.key, copyVal(e.val)}
	}
	return tuple{in.tc.False(), nil, nil}
}

type strIter struct {
	s value
	i int
}

func (it *strIter) next(in *Interp) tuple {
	n := strLen(it.s)
	if it.i >= n {
		return tuple{in.tc.False(), in.tc.Const(64, 0), in.tc.Const(32, 0)}
	}
	if s, ok := it.s.(string); ok {
		r, sz := utf8.DecodeRuneInString(s[it.i:])
		k := it.i
		it.i += sz
		return tuple{in.tc.True(), in.tc.Const(64, uint64(k)), in.tc.Const(32, uint64(r))}
	}
	ss := it.s.(*SymStr)
	r, sz := in.decodeRuneSym(ss.b[it.i:])
	k := it.i
	it.i += sz
	return tuple{in.tc.True(), in.tc.Const(64, uint64(k)), r}
}

func (in *Interp) rangeIter(x value) iter {
	switch x := x.(type) {
	case *Map:
		it := &mapIter{m: x}
		if x != nil {
			for _, e := range x.entries {
				if !e.deleted {
					it.entries = append(it.entries, e)
				}
			}
			// Go's map iteration order is unspecified: for small maps every order is
			// explored (a decision), larger maps are iterated in insertion order
			if n := len(it.entries); in.cfg.MapOrderIn != "" && n >= 2 && n <= 3 && in.initDepth == 0 &&
				in.curFrame() != nil && strings.Contains(in.curFrame().fn.String(), in.cfg.MapOrderIn) {
				perms := [][]int{{0, 1}, {1, 0}}
				if n == 3 {
					perms = [][]int{{0, 1, 2}, {0, 2, 1}, {1, 0, 2}, {1, 2, 0}, {2, 0, 1}, {2, 1, 0}}
				}
				alts := make([]*Term, len(perms))
				for i := range alts {
					alts[i] = in.tc.True()
				}
				p := perms[in.decide(alts, "maporder", nil)]
				es := make([]*mapEntry, n)
				for i, k := range p {
					es[i] = it.entries[k]
				}
				it.entries = es
			}
			if in.cfg.MapOrderReverse {
				for i, j := 0, len(it.entries)-1; i < j; i, j = i+1, j-1 {
					it.entries[i], it.entries[j] = it.entries[j], it.entries[i]
				}
			}
		}
		return it
	case string, *SymStr:
		return &strIter{s: x}
	}
	panic(engineErr("cannot range over %T", x))
}

// decodeRuneSym decodes one UTF-8 sequence from symbolic bytes, forking on the
// byte classes exactly like utf8.DecodeRune.
func (in *Interp) decodeRuneSym(b []*Term) (*Term, int) {
	tc := in.tc
	c8 := func(v uint64) *Term { return tc.Const(8, v) }
	r32 := func(t *Term) *Term { return tc.Zext(t, 32) }
	rerr := tc.Const(32, uint64(utf8.RuneError))
	b0 := b[0]
	if in.branch(tc.Ult(b0, c8(0x80)), "utf8 ascii") {
		return r32(b0), 1
	}
	inRange := func(t *Term, lo, hi uint64) *Term { return tc.And(tc.Ule(c8(lo), t), tc.Ule(t, c8(hi))) }
	cont := func(t *Term) *Term { return inRange(t, 0x80, 0xBF) }
	low6 := func(t *Term) *Term { return r32(tc.binRaw(OpBand, t, c8(0x3F))) }
	shl := func(t *Term, n uint64) *Term { return tc.binRaw(OpShl, t, tc.Const(32, n)) }
	// 2-byte
	if in.branch(inRange(b0, 0xC2, 0xDF), "utf8 2byte") {
		if len(b) < 2 || !in.branch(cont(b[1]), "utf8 cont1") {
			return rerr, 1
		}
		return tc.binRaw(OpBor, shl(r32(tc.binRaw(OpBand, b0, c8(0x1F))), 6), low6(b[1])), 2
	}
	if in.branch(inRange(b0, 0xE0, 0xEF), "utf8 3byte") {
		if len(b) < 3 {
			return rerr, 1
		}
		// second byte range depends on b0
		lo := tc.Ite(tc.Eq(b0, c8(0xE0)), c8(0xA0), c8(0x80))
		hi := tc.Ite(tc.Eq(b0, c8(0xED)), c8(0x9F), c8(0xBF))
		ok := tc.And(tc.Ule(lo, b[1]), tc.Ule(b[1], hi), cont(b[2]))
		if !in.branch(ok, "utf8 3cont") {
			return rerr, 1
		}
		r := tc.binRaw(OpBor, tc.binRaw(OpBor, shl(r32(tc.binRaw(OpBand, b0, c8(0x0F))), 12), shl(low6(b[1]), 6)), low6(b[2]))
		return r, 3
	}
	if in.branch(inRange(b0, 0xF0, 0xF4), "utf8 4byte") {
		if len(b) < 4 {
			return rerr, 1
		}
		lo := tc.Ite(tc.Eq(b0, c8(0xF0)), c8(0x90), c8(0x80))
		hi := tc.Ite(tc.Eq(b0, c8(0xF4)), c8(0x8F), c8(0xBF))
		ok := tc.And(tc.Ule(lo, b[1]), tc.Ule(b[1], hi), cont(b[2]), cont(b[3]))
		if !in.branch(ok, "utf8 4cont") {
			return rerr, 1
		}
		r := tc.binRaw(OpBor, tc.binRaw(OpBor, tc.binRaw(OpBor, shl(r32(tc.binRaw(OpBand, b0, c8(0x07))), 18), shl(low6(b[1]), 12)), shl(low6(b[2]), 6)), low6(b[3]))
		return r, 4
	}
	return rerr, 1
}

// ---------- builtins ----------

func (in *Interp) callBuiltin(caller *frame, pos token.Pos, fn *ssa.Builtin, args []value, cc *ssa.CallCommon) value {
	tc := in.tc
	switch fn.Name() {
	case "append":
		if len(args) == 1 {
			return args[0]
		}
		a0 := args[0].([]value)
		switch a1 := args[1].(type) {
		case string, *SymStr:
			for _, b := range in.toSymStr(a1).b {
				a0 = append(a0, b)
			}
			return a0
		case []value:
			for _, v := range a1 {
				a0 = append(a0, copyVal(v))
			}
			if a0 == nil && a1 != nil {
				a0 = []value{}
			}
			return a0
		}
		panic(engineErr("append: %T", args[1]))
	case "copy":
		dst := args[0].([]value)
		var src []value
		switch s := args[1].(type) {
		case []value:
			src = s
		case string, *SymStr:
			for _, b := range in.toSymStr(s).b {
				src = append(src, b)
			}
		}
		n := min(len(dst), len(src))
		tmp := make([]value, n)
		for i := 0; i < n; i++ {
			tmp[i] = copyVal(src[i])
		}
		copy(dst, tmp)
		return tc.Const(64, uint64(n))
	case "close":
		in.chanClose(caller, args[0].(*Chan))
		return nil
	case "delete":
		in.mapDelete(args[0].(*Map), args[1])
		return nil
	case "clear":
		switch x := args[0].(type) {
		case *Map:
			if x != nil {
				x.entries = nil
				x.index = map[string]*mapEntry{}
				x.nsym = 0
			}
		case []value:
			var et types.Type
			if cc != nil {
				et = under(cc.Args[0].Type()).(*types.Slice).Elem()
			}
			for i := range x {
				x[i] = in.zero(et)
			}
		}
		return nil
	case "print", "println":
		return nil
	case "len":
		switch x := args[0].(type) {
		case string:
			return tc.Const(64, uint64(len(x)))
		case *SymStr:
			return tc.Const(64, uint64(len(x.b)))
		case array:
			return tc.Const(64, uint64(len(x)))
		case *value:
			return tc.Const(64, uint64(len((*x).(array))))
		case []value:
			return tc.Const(64, uint64(len(x)))
		case *Map:
			return tc.Const(64, uint64(x.Len()))
		case *Chan:
			return tc.Const(64, uint64(x.Len()))
		}
		panic(engineErr("len: illegal operand: %T", args[0]))
	case "cap":
		switch x := args[0].(type) {
		case array:
			return tc.Const(64, uint64(len(x)))
		case *value:
			return tc.Const(64, uint64(len((*x).(array))))
		case []value:
			return tc.Const(64, uint64(cap(x)))
		case *Chan:
			if x == nil {
				return tc.Const(64, 0)
			}
			return tc.Const(64, uint64(x.cap))
		}
		panic(engineErr("cap: illegal operand: %T", args[0]))
	case "min", "max":
		isMin := fn.Name() == "min"
		acc := args[0]
		var t types.Type
		if cc != nil {
			t = cc.Args[0].Type()
		}
		for _, a := range args[1:] {
			switch x := acc.(type) {
			case *Term:
				_, signed, _ := isInt(t)
				var lt *Term
				if signed {
					lt = tc.Slt(x, a.(*Term))
				} else {
					lt = tc.Ult(x, a.(*Term))
				}
				if isMin {
					acc = tc.Ite(lt, x, a.(*Term))
				} else {
					acc = tc.Ite(lt, a.(*Term), x)
				}
			case Float:
				y := a.(Float)
				if isMin {
					acc = Float{v: math.Min(x.v, y.v), opaque: x.opaque || y.opaque}
				} else {
					acc = Float{v: math.Max(x.v, y.v), opaque: x.opaque || y.opaque}
				}
			case string:
				y := a.(string)
				if (y < x) == isMin {
					acc = y
				}
			default:
				panic(engineErr("min/max of %T", acc))
			}
		}
		return acc
	case "panic":
		panic(targetPanic{v: args[0], msg: in.where(caller, pos)})
	case "recover":
		return in.doRecover(caller)
	case "ssa:wrapnilchk":
		recv := args[0]
		if p, ok := recv.(*value); ok && p == nil {
			in.targetPanicf(caller, "value method %s.%s called using nil pointer", show(args[1]), show(args[2]))
		}
		return recv
	case "ssa:deferstack":
		return &caller.defers
	case "String": // unsafe.String(ptr, len)
		sd, ok := args[0].(sliceData)
		n := in.concreteInt(args[1].(*Term), true, "unsafe.String len")
		if !ok {
			if n == 0 {
				return ""
			}
			panic(engineErr("unsafe.String of %T", args[0]))
		}
		out := &SymStr{b: make([]*Term, n)}
		for i := range out.b {
			out.b[i] = sd.s[i].(*Term)
		}
		if s, ok := concreteStr(out); ok {
			return s
		}
		return out
	case "SliceData":
		return sliceData{s: args[0].([]value)}
	case "StringData":
		return stringData{s: args[0]}
	case "Slice": // unsafe.Slice(ptr, len)
		n := in.concreteInt(args[1].(*Term), true, "unsafe.Slice len")
		switch p := args[0].(type) {
		case stringData:
			s := in.toSymStr(p.s)
			out := make([]value, n)
			for i := range out {
				out[i] = s.b[i]
			}
			return out
		case sliceData:
			return p.s[:n:n]
		}
		panic(engineErr("unsafe.Slice of %T", args[0]))
	}
	panic(engineErr("unknown built-in: %s", fn.Name()))
}

type sliceData struct{ s []value }
type stringData struct{ s value }

func (in *Interp) noopResults(sig *types.Signature, args []value, name string) value {
	res := sig.Results()
	mk := func(t types.Type) value {
		if _, ok := under(t).(*types.Interface); ok {
			if types.Identical(t, types.Universe.Lookup("error").Type()) {
				return iface{}
			}
			if t.String() == "context.Context" {
				for _, a := range args {
					if i, ok := a.(iface); ok && i.t != nil {
						if _, isCtx := i.v.(*EngCtx); isCtx {
							return i
						}
					}
				}
			}
			if under(t).(*types.Interface).NumMethods() == 0 {
				return iface{}
			}
			return iface{t: t, v: &Opaque{name: name + ":" + t.String(), typ: t}}
		}
		if s, ok := under(t).(*types.Signature); ok {
			return &NativeFunc{name: "noop", fn: func(in *Interp, a []value) value { return in.noopResults(s, a, name) }}
		}
		return in.zero(t)
	}
	switch res.Len() {
	case 0:
		return nil
	case 1:
		return mk(res.At(0).Type())
	}
	out := make(tuple, res.Len())
	for i := range out {
		out[i] = mk(res.At(i).Type())
	}
	return out
}

func (in *Interp) opaqueMethod(o *Opaque, meth *types.Func) value {
	name := meth.Name()
	sig := meth.Type().(*types.Signature)
	return &NativeFunc{name: "opaque." + name, fn: func(in *Interp, args []value) value {
		if o.calls == nil {
			o.calls = map[string]int{}
		}
		o.calls[name]++
		if name == "Inc" || name == "Add" {
			if o.count == nil {
				o.count = in.tc.Const(64, 0)
			}
			o.count = in.tc.Add(o.count, in.tc.Const(64, 1))
		}
		if name == "WithLabelValues" {
			// the same child metric for the same label values (so that increments add up)
			key := "WithLabelValues:"
			if len(args) > 1 {
				if vs, ok := args[1].([]value); ok {
					for _, v := range vs {
						if str, ok := concreteStr(v); ok {
							key += str + "\x00"
						} else {
							key += "?\x00"
						}
					}
				}
			}
			if o.children == nil {
				o.children = map[string]value{}
			}
			if c, ok := o.children[key]; ok {
				return c
			}
			c := in.noopResults(sig, args[1:], o.name+"."+name)
			o.children[key] = c
			return c
		}
		return in.noopResults(sig, args[1:], o.name+"."+name)
	}}
}

var _ = fmt.Sprint

// encodeRuneSym is utf8.AppendRune on a symbolic rune: forks on the encoding length.
func (in *Interp) encodeRuneSym(r *Term) []*Term {
	tc := in.tc
	if r.IsConst() {
		var out []*Term
		for _, b := range []byte(string(rune(signExt(r.c, 32)))) {
			out = append(out, tc.Const(8, uint64(b)))
		}
		return out
	}
	c := func(v uint64) *Term { return tc.Const(32, v) }
	b8 := func(t *Term) *Term { return tc.Extract(t, 7, 0) }
	shr := func(t *Term, n uint64) *Term { return tc.binRaw(OpLshr, t, c(n)) }
	or := func(k uint64, t *Term) *Term { return b8(tc.binRaw(OpBor, c(k), t)) }
	low6 := func(t *Term) *Term { return tc.binRaw(OpBand, t, c(0x3F)) }
	rerr := []*Term{tc.Const(8, 0xEF), tc.Const(8, 0xBF), tc.Const(8, 0xBD)}
	if in.branch(tc.Ult(r, c(0x80)), "utf8enc 1") {
		return []*Term{b8(r)}
	}
	if in.branch(tc.Ult(r, c(0x800)), "utf8enc 2") {
		return []*Term{or(0xC0, shr(r, 6)), or(0x80, low6(r))}
	}
	// surrogates and out-of-range (incl. negative = huge unsigned) encode RuneError
	bad := tc.Or(tc.And(tc.Ule(c(0xD800), r), tc.Ule(r, c(0xDFFF))), tc.Ult(c(0x10FFFF), r))
	if in.branch(bad, "utf8enc bad") {
		return rerr
	}
	if in.branch(tc.Ult(r, c(0x10000)), "utf8enc 3") {
		return []*Term{or(0xE0, shr(r, 12)), or(0x80, low6(shr(r, 6))), or(0x80, low6(r))}
	}
	return []*Term{or(0xF0, shr(r, 18)), or(0x80, low6(shr(r, 12))), or(0x80, low6(shr(r, 6))), or(0x80, low6(r))}
}
