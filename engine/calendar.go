package main

// Abstract Gregorian calendar instants. vfCalendarTime creates a time.Time whose
// year/month/day/hour/minute are symbolic and tied together exactly by the Gregorian
// rules (month lengths, leap years, weekday, seconds since the epoch), for years
// 1970..2099 in UTC. The time.Time accessors are answered from these components, so
// code that reads calendar fields is decided for every minute of those years at once.
// Go's own calendar arithmetic and the time-zone database are not interpreted.

import (
	"time"

	"golang.org/x/tools/go/ssa"
)

type calRec struct {
	year, month, day, hour, minute, second, weekday, dim, days *Term
	sec                                                        *Term // seconds since 1970-01-01T00:00 of the wall-clock reading
	utc                                                        *calRec // for a zone reading: the UTC reading of the same instant
}

// calKey identifies the calendar reading of an instant in a zone (nil = UTC).
type calKey struct {
	ext *Term
	loc *value
}

// fixedZone is the engine's time.Location for time.FixedZone: a name and an offset
// in seconds east of UTC (possibly symbolic).
type fixedZone struct {
	name value
	off  *Term
	// a zone with one transition (vfTransitionZone): off before the instant trans
	// (Unix seconds), off2 from it on; nil for a fixed zone
	trans, off2 *Term
}

// offAt is the zone's offset at the instant utcSec (seconds since 1970, UTC).
func (z *fixedZone) offAt(in *Interp, utcSec *Term) *Term {
	if z.trans == nil {
		return z.off
	}
	return in.tc.Ite(in.tc.Slt(utcSec, z.trans), z.off, z.off2)
}

// zoneOf returns the fixed zone behind a *time.Location value, or nil for UTC/Local.
func (in *Interp) zoneOf(loc value) (*value, *fixedZone) {
	p, ok := loc.(*value)
	if !ok || p == nil {
		return nil, nil
	}
	if z, ok := (*p).(*fixedZone); ok {
		if z.trans == nil && z.off.IsConst() && z.off.c == 0 {
			return nil, nil
		}
		return p, z
	}
	return nil, nil
}

func (in *Interp) calOf(t value) *calRec {
	s, ok := t.(structure)
	if !ok {
		return nil
	}
	ext, ok := s[1].(*Term)
	if !ok {
		return nil
	}
	lp, z := in.zoneOf(s[2])
	if c, ok := in.side[calKey{ext, lp}].(*calRec); ok {
		return c
	}
	if z != nil {
		// the same instant read in a fixed zone: derive its wall-clock fields
		if base, ok := in.side[calKey{ext, nil}].(*calRec); ok && base.sec != nil {
			c := in.shiftCal(base, z.offAt(in, base.sec))
			c.utc = base
			in.side[calKey{ext, lp}] = c
			return c
		}
	}
	return nil
}

// fdiv is floor division of a non-negative term by a positive constant.
func (in *Interp) fdiv(a *Term, k uint64) *Term {
	q, _ := in.tc.DivModConst(a, k, false)
	return q
}

func (in *Interp) newCalendarTime(name string) value {
	c := in.calFields(name, true)
	ext := in.tc.Add(c.sec, in.tc.Const(64, unixToInternal))
	in.side[calKey{ext, nil}] = c
	return structure{in.tc.Const(64, 0), ext, (*value)(nil)}
}

// calFields creates calendar fields tied together by the Gregorian rules. Inputs
// (asInput) have second 0; derived readings (a zone shift) get a free second field.
func (in *Interp) calFields(name string, asInput bool) *calRec {
	tc := in.tc
	c64 := func(v uint64) *Term { return tc.Const(64, v) }
	mk := func(f string, lo, hi int64) *Term {
		if asInput {
			return in.rangedInput("int", name+"."+f, 64, lo, hi)
		}
		t := tc.Fresh(name+"."+f, 64)
		in.addPC(tc.And(tc.Ule(c64(uint64(lo)), t), tc.Ule(t, c64(uint64(hi)))))
		tc.WithRange(t, uint64(lo), uint64(hi))
		return t
	}
	// years 1970..2099: in this span a year is leap iff it is divisible by 4 (2000 is
	// a leap year; the century exceptions 2100, 2200 ... lie outside the bound)
	y := mk("year", 1970, 2099)
	mo := mk("month", 1, 12)
	d := mk("day", 1, 31)
	h := mk("hour", 0, 23)
	mi := mk("minute", 0, 59)
	var se *Term
	if !asInput {
		se = mk("second", 0, 59)
	}
	q4, r4 := tc.DivModConst(y, 4, false)
	leap := tc.Eq(r4, c64(0))
	is := func(m uint64) *Term { return tc.Eq(mo, c64(m)) }
	thirty := tc.Or(is(4), is(6), is(9), is(11))
	dim := tc.Ite(is(2), tc.Ite(leap, c64(29), c64(28)), tc.Ite(thirty, c64(30), c64(31)))
	dim = tc.WithRange(dim, 28, 31)
	in.addPC(tc.Ule(d, dim))
	// days since 1970-01-01: 365*(y-1970) + leap days before the year + days before the
	// month + day-1. Leap days before year y = floor((y-1969)/4) = q4 - 493 + (r4>=1)
	leapsBefore := tc.Add(tc.Sub(q4, c64(493)), tc.Ite(tc.Ule(c64(1), r4), c64(1), c64(0)))
	leapsBefore = tc.WithRange(leapsBefore, 0, 33)
	cum := []uint64{0, 31, 59, 90, 120, 151, 181, 212, 243, 273, 304, 334}
	before := c64(cum[11])
	for m := 10; m >= 0; m-- {
		before = tc.Ite(is(uint64(m+1)), c64(cum[m]), before)
	}
	before = tc.WithRange(before, 0, 334)
	leapDay := tc.Ite(tc.And(leap, tc.Ule(c64(3), mo)), c64(1), c64(0))
	days := tc.Add(tc.Add(tc.Add(tc.Mul(tc.Sub(y, c64(1970)), c64(365)), leapsBefore), tc.Add(before, leapDay)), tc.Sub(d, c64(1)))
	days = tc.WithRange(days, 0, 47481)
	sec := tc.Add(tc.Add(tc.Mul(days, c64(86400)), tc.Mul(h, c64(3600))), tc.Mul(mi, c64(60)))
	if se != nil {
		sec = tc.Add(sec, se)
	}
	return &calRec{year: y, month: mo, day: d, hour: h, minute: mi, second: se, dim: dim, days: days, sec: sec}
}

// shiftCal reads the calendar instant base (UTC, second 0) in a zone off seconds east
// of UTC, |off| <= 14h (wider offsets are pruned: none exists in practice). The local
// fields are derived from the UTC fields by carrying at most one day, which keeps
// every term a small-range if-then-else instead of one global linear equation.
// Local years outside 1970..2099 are pruned (the first/last 14 hours of the span).
func (in *Interp) shiftCal(b *calRec, off *Term) *calRec {
	tc := in.tc
	c64 := func(v uint64) *Term { return tc.Const(64, v) }
	in.addPC(tc.And(tc.Sle(tc.Const(64, ^uint64(50399)), off), tc.Sle(off, c64(50400))))
	offp := tc.WithRange(tc.Add(off, c64(50400)), 0, 100800)
	totU := tc.Add(tc.Add(tc.Mul(b.hour, c64(3600)), tc.Mul(b.minute, c64(60))), offp)
	totU = tc.WithRange(totU, 0, 86340+100800)
	back := tc.Ult(totU, c64(50400)) // previous local day
	fwd := tc.Ule(c64(136800), totU) // next local day
	tot := tc.Ite(back, tc.Add(totU, c64(36000)), tc.Ite(fwd, tc.Sub(totU, c64(136800)), tc.Sub(totU, c64(50400))))
	tot = tc.WithRange(tot, 0, 86399)
	h2, rem := tc.DivModConst(tot, 3600, false)
	mi2, s2 := tc.DivModConst(rem, 60, false)
	is := func(t *Term, v uint64) *Term { return tc.Eq(t, c64(v)) }
	// previous month's length
	pm := tc.Ite(is(b.month, 1), c64(12), tc.Sub(b.month, c64(1)))
	_, r4 := tc.DivModConst(b.year, 4, false)
	leap := tc.Eq(r4, c64(0))
	pdim := tc.Ite(is(pm, 2), tc.Ite(leap, c64(29), c64(28)),
		tc.Ite(tc.Or(is(pm, 4), is(pm, 6), is(pm, 9), is(pm, 11)), c64(30), c64(31)))
	firstDay := is(b.day, 1)
	lastDay := tc.Eq(b.day, b.dim)
	prevMonth := tc.And(back, firstDay)
	nextMonth := tc.And(fwd, lastDay)
	d2 := tc.Ite(back, tc.Ite(firstDay, pdim, tc.Sub(b.day, c64(1))),
		tc.Ite(fwd, tc.Ite(lastDay, c64(1), tc.Add(b.day, c64(1))), b.day))
	d2 = tc.WithRange(d2, 1, 31)
	m2 := tc.Ite(prevMonth, pm, tc.Ite(nextMonth, tc.Ite(is(b.month, 12), c64(1), tc.Add(b.month, c64(1))), b.month))
	m2 = tc.WithRange(m2, 1, 12)
	y2 := tc.Ite(tc.And(prevMonth, is(b.month, 1)), tc.Sub(b.year, c64(1)),
		tc.Ite(tc.And(nextMonth, is(b.month, 12)), tc.Add(b.year, c64(1)), b.year))
	in.addPC(tc.And(tc.Ule(c64(1970), y2), tc.Ule(y2, c64(2099))))
	y2 = tc.WithRange(y2, 1970, 2099)
	// the local month's length: February only changes with the month, never with the
	// year alone (a year carry lands in January or December)
	dim2 := tc.Ite(prevMonth, pdim, tc.Ite(nextMonth,
		tc.Ite(is(m2, 2), tc.Ite(leap, c64(29), c64(28)), tc.Ite(tc.Or(is(m2, 4), is(m2, 6), is(m2, 9), is(m2, 11)), c64(30), c64(31))),
		b.dim))
	dim2 = tc.WithRange(dim2, 28, 31)
	days2 := tc.Ite(back, tc.Sub(b.days, c64(1)), tc.Ite(fwd, tc.Add(b.days, c64(1)), b.days))
	in.addPC(tc.Sle(c64(0), days2))
	days2 = tc.WithRange(days2, 0, 47482)
	return &calRec{year: y2, month: m2, day: d2, hour: h2, minute: mi2, second: s2, dim: dim2, days: days2}
}

// weekdayOf derives the weekday lazily (one more division by a constant).
func (in *Interp) weekdayOf(c *calRec) *Term {
	if c.weekday == nil {
		_, wd := in.tc.DivModConst(in.tc.Add(c.days, in.tc.Const(64, 4)), 7, false)
		c.weekday = wd
	}
	return c.weekday
}

func registerCalendar() {
	vfAPI["vfCalendarTime"] = func(in *Interp, fr *frame, fn *ssa.Function, a []value) value {
		return in.newCalendarTime(in.mustStr(a[0], "vfCalendarTime"))
	}
	vfAPI["vfTransitionZone"] = func(in *Interp, fr *frame, fn *ssa.Function, a []value) value {
		p := new(value)
		*p = &fixedZone{name: a[0], trans: a[1].(*Term), off: a[2].(*Term), off2: a[3].(*Term)}
		return p
	}
	I := intrinsics
	I["(time.Time).Date"] = func(in *Interp, fr *frame, fn *ssa.Function, a []value) value {
		c := in.calOf(a[0])
		if c == nil {
			inst := in.timeInst(a[0])
			if !inst.sec.IsConst() {
				panic(engineErr("Date() of a symbolic instant that is not a vfCalendarTime"))
			}
			t := time.Unix(signExt(inst.sec.c, 64)-unixToInternal, 0).UTC()
			if _, z := in.zoneOf(a[0].(structure)[2]); z != nil {
				panic(engineErr("Date() of a constant instant in a zone"))
			}
			return tuple{in.i64(int64(t.Year())), in.i64(int64(t.Month())), in.i64(int64(t.Day()))}
		}
		return tuple{c.year, c.month, c.day}
	}
	I["time.FixedZone"] = func(in *Interp, fr *frame, fn *ssa.Function, a []value) value {
		p := new(value)
		*p = &fixedZone{name: a[0], off: a[1].(*Term)}
		return p
	}
	field := func(name string, pick func(c *calRec) *Term, native func(t time.Time) int64) {
		I["(time.Time)."+name] = func(in *Interp, fr *frame, fn *ssa.Function, a []value) value {
			if c := in.calOf(a[0]); c != nil {
				if t := pick(c); t != nil {
					return t
				}
				return in.i64(0)
			}
			inst := in.timeInst(a[0])
			if !inst.sec.IsConst() || !inst.nsec.IsConst() {
				panic(engineErr("calendar field %s of a symbolic instant that is not a vfCalendarTime", name))
			}
			t := time.Unix(signExt(inst.sec.c, 64)-unixToInternal, int64(inst.nsec.c)).UTC()
			if _, z := in.zoneOf(a[0].(structure)[2]); z != nil {
				if !z.off.IsConst() {
					panic(engineErr("calendar field %s of a constant instant in a symbolic zone", name))
				}
				t = t.In(time.FixedZone("z", int(signExt(z.off.c, 64))))
			}
			return in.i64(native(t))
		}
	}
	field("Year", func(c *calRec) *Term { return c.year }, func(t time.Time) int64 { return int64(t.Year()) })
	field("Month", func(c *calRec) *Term { return c.month }, func(t time.Time) int64 { return int64(t.Month()) })
	field("Day", func(c *calRec) *Term { return c.day }, func(t time.Time) int64 { return int64(t.Day()) })
	field("Hour", func(c *calRec) *Term { return c.hour }, func(t time.Time) int64 { return int64(t.Hour()) })
	field("Minute", func(c *calRec) *Term { return c.minute }, func(t time.Time) int64 { return int64(t.Minute()) })
	I["(time.Time).Weekday"] = func(in *Interp, fr *frame, fn *ssa.Function, a []value) value {
		if c := in.calOf(a[0]); c != nil {
			if c.days == nil {
				panic(engineErr("weekday of a derived calendar instant"))
			}
			return in.weekdayOf(c)
		}
		inst := in.timeInst(a[0])
		if !inst.sec.IsConst() {
			panic(engineErr("Weekday of a symbolic instant that is not a vfCalendarTime"))
		}
		return in.i64(int64(time.Unix(signExt(inst.sec.c, 64)-unixToInternal, 0).UTC().Weekday()))
	}
	field("Second", func(c *calRec) *Term { return c.second }, func(t time.Time) int64 { return int64(t.Second()) })
	I["time.Date"] = func(in *Interp, fr *frame, fn *ssa.Function, a []value) value {
		allConst := true
		var v [7]int64
		for i := 0; i < 7; i++ {
			x, ok := cint(a[i])
			if !ok {
				allConst = false
			}
			v[i] = x
		}
		if allConst {
			t := time.Date(int(v[0]), time.Month(v[1]), int(v[2]), int(v[3]), int(v[4]), int(v[5]), int(v[6]), time.UTC)
			return structure{in.i64(int64(t.Nanosecond())), in.i64(t.Unix() + unixToInternal), a[7]}
		}
		// Date(year, month+1, 0, ...) of a calendar instant: the last day of its month
		y, m := a[0].(*Term), a[1].(*Term)
		if d, ok := cint(a[2]); ok && d == 0 {
			for k, rec := range in.side {
				if _, isCal := k.(calKey); !isCal {
					continue
				}
				c := rec.(*calRec)
				if c.year == y && in.tc.Add(c.month, in.tc.Const(64, 1)) == m {
					ext := in.tc.Fresh("lastday", 64)
					lp, _ := in.zoneOf(a[7])
					in.side[calKey{ext, lp}] = &calRec{year: c.year, month: c.month, day: c.dim, hour: a[3].(*Term), minute: a[4].(*Term), dim: c.dim}
					return structure{in.i64(0), ext, a[7]}
				}
			}
		}
		// Date(y, m, d, h, mi, s, 0, loc) with y/m/d taken from a calendar reading in loc
		// and constant clock fields: the instant at which loc's wall clock shows that time
		// (Go's rule for a zone with one transition: try the offset in effect at the wall
		// time read as UTC, and if the result falls outside that offset's period, the
		// offset in effect at the result)
		if dt, ok := a[2].(*Term); ok {
			hh, ok1 := cint(a[3])
			mm, ok2 := cint(a[4])
			ss, ok3 := cint(a[5])
			ns, ok4 := cint(a[6])
			lp, z := in.zoneOf(a[7])
			if ok1 && ok2 && ok3 && ok4 && ns == 0 {
				for k, rec := range in.side {
					ck, isCal := k.(calKey)
					if !isCal || ck.loc != lp {
						continue
					}
					c := rec.(*calRec)
					if c.year != y || c.month != m || c.day != dt || c.days == nil {
						continue
					}
					tc := in.tc
					L := tc.Add(tc.Mul(c.days, tc.Const(64, 86400)), tc.Const(64, uint64(hh*3600+mm*60+ss)))
					var off *Term
					switch {
					case z == nil:
						off = tc.Const(64, 0)
					case z.trans == nil:
						off = z.off
					default:
						first := tc.Slt(L, z.trans)
						a1 := tc.Ite(first, z.off, z.off2)
						utc := tc.Sub(L, a1)
						valid := tc.Eq(tc.Slt(utc, z.trans), first)
						off = tc.Ite(valid, a1, tc.Ite(tc.Slt(utc, z.trans), z.off, z.off2))
					}
					ext := tc.Add(tc.Sub(L, off), tc.Const(64, unixToInternal))
					return structure{in.i64(0), ext, a[7]}
				}
			}
		}
		panic(engineErr("time.Date with symbolic arguments outside the modelled pattern"))
	}
}
