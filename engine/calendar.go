package main

// Abstract Gregorian calendar instants. vfCalendarTime creates a time.Time whose
// year/month/day/hour/minute are symbolic and tied together exactly by the Gregorian
// rules (month lengths, leap years, weekday, seconds since the epoch), for years
// 1970..2099 in UTC. The time.Time accessors are answered from these components, so
// code that reads calendar fields is decided for every minute of those years at once.
// Go's own calendar arithmetic and the time-zone database are not interpreted.

import (
	"time"

	"golang.org/x/tools/go/ssa"
)

type calRec struct {
	year, month, day, hour, minute, weekday, dim, days *Term
}

type calKey struct{ ext *Term }

func (in *Interp) calOf(t value) *calRec {
	s, ok := t.(structure)
	if !ok {
		return nil
	}
	ext, ok := s[1].(*Term)
	if !ok {
		return nil
	}
	if c, ok := in.side[calKey{ext}].(*calRec); ok {
		return c
	}
	return nil
}

// fdiv is floor division of a non-negative term by a positive constant.
func (in *Interp) fdiv(a *Term, k uint64) *Term {
	q, _ := in.tc.DivModConst(a, k, false)
	return q
}

func (in *Interp) newCalendarTime(name string) value {
	tc := in.tc
	c64 := func(v uint64) *Term { return tc.Const(64, v) }
	// years 1970..2099: in this span a year is leap iff it is divisible by 4 (2000 is
	// a leap year; the century exceptions 2100, 2200 ... lie outside the bound)
	y := in.rangedInput("int", name+".year", 64, 1970, 2099)
	mo := in.rangedInput("int", name+".month", 64, 1, 12)
	d := in.rangedInput("int", name+".day", 64, 1, 31)
	h := in.rangedInput("int", name+".hour", 64, 0, 23)
	mi := in.rangedInput("int", name+".minute", 64, 0, 59)
	q4, r4 := tc.DivModConst(y, 4, false)
	leap := tc.Eq(r4, c64(0))
	is := func(m uint64) *Term { return tc.Eq(mo, c64(m)) }
	thirty := tc.Or(is(4), is(6), is(9), is(11))
	dim := tc.Ite(is(2), tc.Ite(leap, c64(29), c64(28)), tc.Ite(thirty, c64(30), c64(31)))
	dim = tc.WithRange(dim, 28, 31)
	in.addPC(tc.Ule(d, dim))
	// days since 1970-01-01: 365*(y-1970) + leap days before the year + days before the
	// month + day-1. Leap days before year y = floor((y-1969)/4) = q4 - 493 + (r4>=1)
	leapsBefore := tc.Add(tc.Sub(q4, c64(493)), tc.Ite(tc.Ule(c64(1), r4), c64(1), c64(0)))
	leapsBefore = tc.WithRange(leapsBefore, 0, 33)
	cum := []uint64{0, 31, 59, 90, 120, 151, 181, 212, 243, 273, 304, 334}
	before := c64(cum[11])
	for m := 10; m >= 0; m-- {
		before = tc.Ite(is(uint64(m+1)), c64(cum[m]), before)
	}
	before = tc.WithRange(before, 0, 334)
	leapDay := tc.Ite(tc.And(leap, tc.Ule(c64(3), mo)), c64(1), c64(0))
	days := tc.Add(tc.Add(tc.Add(tc.Mul(tc.Sub(y, c64(1970)), c64(365)), leapsBefore), tc.Add(before, leapDay)), tc.Sub(d, c64(1)))
	days = tc.WithRange(days, 0, 47481)
	sec := tc.Add(tc.Add(tc.Mul(days, c64(86400)), tc.Mul(h, c64(3600))), tc.Mul(mi, c64(60)))
	ext := tc.Add(sec, c64(unixToInternal))
	in.side[calKey{ext}] = &calRec{year: y, month: mo, day: d, hour: h, minute: mi, dim: dim, days: days}
	return structure{c64(0), ext, (*value)(nil)}
}

// weekdayOf derives the weekday lazily (one more division by a constant).
func (in *Interp) weekdayOf(c *calRec) *Term {
	if c.weekday == nil {
		_, wd := in.tc.DivModConst(in.tc.Add(c.days, in.tc.Const(64, 4)), 7, false)
		c.weekday = wd
	}
	return c.weekday
}

func registerCalendar() {
	vfAPI["vfCalendarTime"] = func(in *Interp, fr *frame, fn *ssa.Function, a []value) value {
		return in.newCalendarTime(in.mustStr(a[0], "vfCalendarTime"))
	}
	I := intrinsics
	field := func(name string, pick func(c *calRec) *Term, native func(t time.Time) int64) {
		I["(time.Time)."+name] = func(in *Interp, fr *frame, fn *ssa.Function, a []value) value {
			if c := in.calOf(a[0]); c != nil {
				if t := pick(c); t != nil {
					return t
				}
				return in.i64(0)
			}
			inst := in.timeInst(a[0])
			if !inst.sec.IsConst() || !inst.nsec.IsConst() {
				panic(engineErr("calendar field %s of a symbolic instant that is not a vfCalendarTime", name))
			}
			t := time.Unix(signExt(inst.sec.c, 64)-unixToInternal, int64(inst.nsec.c)).UTC()
			return in.i64(native(t))
		}
	}
	field("Year", func(c *calRec) *Term { return c.year }, func(t time.Time) int64 { return int64(t.Year()) })
	field("Month", func(c *calRec) *Term { return c.month }, func(t time.Time) int64 { return int64(t.Month()) })
	field("Day", func(c *calRec) *Term { return c.day }, func(t time.Time) int64 { return int64(t.Day()) })
	field("Hour", func(c *calRec) *Term { return c.hour }, func(t time.Time) int64 { return int64(t.Hour()) })
	field("Minute", func(c *calRec) *Term { return c.minute }, func(t time.Time) int64 { return int64(t.Minute()) })
	I["(time.Time).Weekday"] = func(in *Interp, fr *frame, fn *ssa.Function, a []value) value {
		if c := in.calOf(a[0]); c != nil {
			if c.days == nil {
				panic(engineErr("weekday of a derived calendar instant"))
			}
			return in.weekdayOf(c)
		}
		inst := in.timeInst(a[0])
		if !inst.sec.IsConst() {
			panic(engineErr("Weekday of a symbolic instant that is not a vfCalendarTime"))
		}
		return in.i64(int64(time.Unix(signExt(inst.sec.c, 64)-unixToInternal, 0).UTC().Weekday()))
	}
	field("Second", func(c *calRec) *Term { return nil }, func(t time.Time) int64 { return int64(t.Second()) })
	I["time.Date"] = func(in *Interp, fr *frame, fn *ssa.Function, a []value) value {
		allConst := true
		var v [7]int64
		for i := 0; i < 7; i++ {
			x, ok := cint(a[i])
			if !ok {
				allConst = false
			}
			v[i] = x
		}
		if allConst {
			t := time.Date(int(v[0]), time.Month(v[1]), int(v[2]), int(v[3]), int(v[4]), int(v[5]), int(v[6]), time.UTC)
			return structure{in.i64(int64(t.Nanosecond())), in.i64(t.Unix() + unixToInternal), a[7]}
		}
		// Date(year, month+1, 0, ...) of a calendar instant: the last day of its month
		y, m := a[0].(*Term), a[1].(*Term)
		if d, ok := cint(a[2]); ok && d == 0 {
			for k, rec := range in.side {
				if _, isCal := k.(calKey); !isCal {
					continue
				}
				c := rec.(*calRec)
				if c.year == y && in.tc.Add(c.month, in.tc.Const(64, 1)) == m {
					ext := in.tc.Fresh("lastday", 64)
					in.side[calKey{ext}] = &calRec{year: c.year, month: c.month, day: c.dim, hour: a[3].(*Term), minute: a[4].(*Term), dim: c.dim}
					return structure{in.i64(0), ext, a[7]}
				}
			}
		}
		panic(engineErr("time.Date with symbolic arguments outside the modelled pattern"))
	}
}
