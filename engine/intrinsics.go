package main

// Stubs ("environment = nondeterministic or summarised functions"): harness API,
// time, sync, atomic, context, errors/fmt, strings/strconv on concrete data,
// uuid, regexp (native on concrete), sort.Slice, protobuf codec (opaque).

import (
	"crypto/md5"
	"crypto/sha256"
	"fmt"
	"go/token"
	"go/types"
	"hash"
	"math"
	"regexp"
	"sort"
	"strconv"
	"strings"
	"unicode"
	"unicode/utf8"

	"github.com/cespare/xxhash/v2"
	"golang.org/x/tools/go/ssa"
)

type intrinsic func(in *Interp, fr *frame, fn *ssa.Function, args []value) value

var intrinsics map[string]intrinsic
var customInit map[string]func(in *Interp, pkg *ssa.Package)

func fnName(fn *ssa.Function) string {
	if o := fn.Origin(); o != nil {
		return o.String()
	}
	return fn.String()
}

func (in *Interp) tryIntrinsic(fr *frame, fn *ssa.Function, args []value) (value, bool) {
	name := fnName(fn)
	if strings.HasPrefix(fn.Name(), "vf") && len(fn.Name()) > 2 && unicode.IsUpper(rune(fn.Name()[2])) {
		if h, ok := vfAPI[fn.Name()]; ok {
			return h(in, fr, fn, args), true
		}
	}
	if h, ok := intrinsics[name]; ok {
		return h(in, fr, fn, args), true
	}
	if fn.Pkg != nil {
		path := fn.Pkg.Pkg.Path()
		if isNoopPkg(path) {
			if fn.Name() == "init" {
				return nil, true
			}
			return in.noopResults(fn.Signature, args, name), true
		}
	} else if fn.Synthetic != "" && fn.Blocks == nil {
		panic(engineErr("synthetic function without body: %s", name))
	}
	// methods of types from no-op packages reached through wrappers
	if recv := fn.Signature.Recv(); recv != nil && fn.Pkg == nil {
		if n, ok := derefNamed(recv.Type()); ok && n.Obj().Pkg() != nil && isNoopPkg(n.Obj().Pkg().Path()) {
			return in.noopResults(fn.Signature, args, name), true
		}
	}
	return nil, false
}

func derefNamed(t types.Type) (*types.Named, bool) {
	if p, ok := t.(*types.Pointer); ok {
		t = p.Elem()
	}
	n, ok := t.(*types.Named)
	return n, ok
}

func (in *Interp) i64(v int64) *Term { return in.tc.Const(64, uint64(v)) }

func cint(v value) (int64, bool) {
	t, ok := v.(*Term)
	if !ok || !t.IsConst() {
		return 0, false
	}
	return signExt(t.c, t.w), true
}

func (in *Interp) mustStr(v value, what string) string {
	s, ok := concreteStr(v)
	if !ok {
		panic(engineErr("%s: symbolic string not supported", what))
	}
	return s
}

func (in *Interp) key(name string) string {
	n := in.nameCount[name]
	in.nameCount[name] = n + 1
	if n == 0 {
		return name
	}
	return fmt.Sprintf("%s#%d", name, n)
}

func (in *Interp) input(kind, name string, w int) *Term {
	k := in.key(name)
	t := in.tc.Var(k, w)
	in.res.Inputs = append(in.res.Inputs, inputRec{Key: k, Kind: kind, Term: t})
	return t
}

func (in *Interp) rangedInput(kind, name string, w int, lo, hi int64) *Term {
	t := in.input(kind, name, w)
	tc := in.tc
	if lo >= 0 {
		in.addPC(tc.And(tc.Ule(tc.Const(w, uint64(lo)), t), tc.Ule(t, tc.Const(w, uint64(hi)))))
		tc.WithRange(t, uint64(lo), uint64(hi))
	} else {
		in.addPC(tc.And(tc.Sle(tc.Const(w, uint64(lo)), t), tc.Sle(t, tc.Const(w, uint64(hi)))))
	}
	return t
}

var vfAPI map[string]intrinsic

func init() {
	vfAPI = map[string]intrinsic{
		"vfInt64": func(in *Interp, fr *frame, fn *ssa.Function, a []value) value {
			return in.input("int64", in.mustStr(a[0], "vfInt64"), 64)
		},
		"vfUint64": func(in *Interp, fr *frame, fn *ssa.Function, a []value) value {
			return in.input("uint64", in.mustStr(a[0], "vfUint64"), 64)
		},
		"vfBool": func(in *Interp, fr *frame, fn *ssa.Function, a []value) value {
			return in.input("bool", in.mustStr(a[0], "vfBool"), 0)
		},
		"vfByte": func(in *Interp, fr *frame, fn *ssa.Function, a []value) value {
			return in.input("byte", in.mustStr(a[0], "vfByte"), 8)
		},
		"vfIntRange": func(in *Interp, fr *frame, fn *ssa.Function, a []value) value {
			lo, ok1 := cint(a[1])
			hi, ok2 := cint(a[2])
			if !ok1 || !ok2 || lo > hi {
				panic(engineErr("vfIntRange needs concrete lo<=hi"))
			}
			return in.rangedInput("int", in.mustStr(a[0], "vfIntRange"), 64, lo, hi)
		},
		"vfDuration": func(in *Interp, fr *frame, fn *ssa.Function, a []value) value {
			lo, ok1 := cint(a[1])
			hi, ok2 := cint(a[2])
			if !ok1 || !ok2 || lo > hi {
				panic(engineErr("vfDuration needs concrete lo<=hi"))
			}
			return in.rangedInput("int", in.mustStr(a[0], "vfDuration"), 64, lo, hi)
		},
		// vfSeconds(name, lo, hi) returns a duration that is a whole number of seconds in [lo,hi] seconds.
		"vfSeconds": func(in *Interp, fr *frame, fn *ssa.Function, a []value) value {
			lo, ok1 := cint(a[1])
			hi, ok2 := cint(a[2])
			if !ok1 || !ok2 || lo > hi || lo < 0 {
				panic(engineErr("vfSeconds needs concrete 0<=lo<=hi"))
			}
			k := in.rangedInput("int", in.mustStr(a[0], "vfSeconds"), 64, lo, hi)
			return in.tc.Mul(k, in.tc.Const(64, 1e9))
		},
		"vfChoice": func(in *Interp, fr *frame, fn *ssa.Function, a []value) value {
			n, ok := cint(a[1])
			if !ok || n < 1 {
				panic(engineErr("vfChoice needs concrete n>=1"))
			}
			name := in.mustStr(a[0], "vfChoice")
			t := in.rangedInput("int", name, 64, 0, n-1)
			k, _ := in.chooseIndex(t, types.Typ[types.Int], int(n), "choice "+name)
			return in.i64(int64(k))
		},
		"vfString": func(in *Interp, fr *frame, fn *ssa.Function, a []value) value {
			n, ok := cint(a[1])
			if !ok || n < 0 {
				panic(engineErr("vfString needs concrete length"))
			}
			name := in.mustStr(a[0], "vfString")
			k := in.key(name)
			s := &SymStr{b: make([]*Term, n)}
			for i := range s.b {
				t := in.tc.Var(fmt.Sprintf("%s[%d]", k, i), 8)
				in.res.Inputs = append(in.res.Inputs, inputRec{Key: t.name, Kind: "byte", Term: t})
				s.b[i] = t
			}
			return s
		},
		"vfAssume": func(in *Interp, fr *frame, fn *ssa.Function, a []value) value {
			in.assume(a[0].(*Term))
			return nil
		},
		"vfAssert": func(in *Interp, fr *frame, fn *ssa.Function, a []value) value {
			in.assert(in.mustStr(a[0], "vfAssert"), a[1].(*Term), in.posString(fr.callpos))
			return nil
		},
		"vfFail": func(in *Interp, fr *frame, fn *ssa.Function, a []value) value {
			in.assert(in.mustStr(a[0], "vfFail"), in.tc.False(), in.posString(fr.callpos))
			return nil
		},
		"vfReach": func(in *Interp, fr *frame, fn *ssa.Function, a []value) value {
			in.res.Reached = append(in.res.Reached, in.mustStr(a[0], "vfReach"))
			return nil
		},
		"vfObserve": func(in *Interp, fr *frame, fn *ssa.Function, a []value) value {
			v := a[1]
			if i, ok := v.(iface); ok {
				v = i.v
				if i.t != nil && i.t.String() == "time.Time" {
					inst := in.timeInst(i.v)
					v = structure{in.tc.Sub(inst.sec, in.i64(unixToInternal)), inst.nsec}
				}
			}
			in.res.Observes = append(in.res.Observes, observeRec{Name: in.mustStr(a[0], "vfObserve"), Term: v})
			return nil
		},
		"vfAdvance": func(in *Interp, fr *frame, fn *ssa.Function, a []value) value {
			in.sleep(a[0].(*Term))
			return nil
		},
		"vfNow": func(in *Interp, fr *frame, fn *ssa.Function, a []value) value {
			return in.timeValue(in.clock)
		},
		"vfYield": func(in *Interp, fr *frame, fn *ssa.Function, a []value) value {
			in.yield("vfYield")
			return nil
		},
		"vfGo": func(in *Interp, fr *frame, fn *ssa.Function, a []value) value {
			in.spawnNamed(fr, fr.callpos, a[1], nil, nil, in.mustStr(a[0], "vfGo"), true)
			return nil
		},
		"vfAnd": func(in *Interp, fr *frame, fn *ssa.Function, a []value) value {
			return in.tc.And(a[0].(*Term), a[1].(*Term))
		},
		"vfOr": func(in *Interp, fr *frame, fn *ssa.Function, a []value) value {
			return in.tc.Or(a[0].(*Term), a[1].(*Term))
		},
		"vfImplies": func(in *Interp, fr *frame, fn *ssa.Function, a []value) value {
			return in.tc.Implies(a[0].(*Term), a[1].(*Term))
		},
		"vfIteInt": func(in *Interp, fr *frame, fn *ssa.Function, a []value) value {
			return in.tc.Ite(a[0].(*Term), a[1].(*Term), a[2].(*Term))
		},
		"vfNative": func(in *Interp, fr *frame, fn *ssa.Function, a []value) value {
			return in.tc.False()
		},
		// vfExport(name, v) makes a harness-computed integer part of the witness, so the
		// native twin can read it back with vfImport(name).
		"vfExport": func(in *Interp, fr *frame, fn *ssa.Function, a []value) value {
			in.res.Exports = append(in.res.Exports, exportRec{Name: in.mustStr(a[0], "vfExport"), Term: a[1].(*Term)})
			return nil
		},
		"vfImport": func(in *Interp, fr *frame, fn *ssa.Function, a []value) value {
			panic(engineErr("vfImport is only meaningful in the native twin (guard it with vfNative())"))
		},
		"vfSetGOMAXPROCS": func(in *Interp, fr *frame, fn *ssa.Function, a []value) value {
			in.side["GOMAXPROCS"] = a[0].(*Term)
			return nil
		},
		"vfTier": func(in *Interp, fr *frame, fn *ssa.Function, a []value) value {
			return in.i64(int64(in.w.ex.tier))
		},
		"vfSymbolic": func(in *Interp, fr *frame, fn *ssa.Function, a []value) value {
			return in.tc.True()
		},
		// vfCounter(c) returns how often Inc/Add was called on a stubbed metric.
		"vfCounter": func(in *Interp, fr *frame, fn *ssa.Function, a []value) value {
			if i, ok := a[0].(iface); ok {
				if o, ok := i.v.(*Opaque); ok {
					if o.count == nil {
						return in.i64(0)
					}
					return o.count
				}
			}
			panic(engineErr("vfCounter: not a stubbed metric: %s", show(a[0])))
		},
	}

	intrinsics = map[string]intrinsic{}
	customInit = map[string]func(in *Interp, pkg *ssa.Package){}
	registerTime()
	registerSync()
	registerContext()
	registerErrorsFmt()
	registerStrings()
	registerMisc()
	registerProto()
	registerCalendar()
	registerFS()
}

// ---------- time ----------

func (in *Interp) timeInst(v value) Instant {
	s, ok := v.(structure)
	if !ok {
		panic(engineErr("timeInst of %T", v))
	}
	return Instant{sec: s[1].(*Term), nsec: s[0].(*Term)}
}

func (in *Interp) timeValue(t Instant) value {
	return structure{t.nsec, t.sec, (*value)(nil)}
}

func (in *Interp) timeWithLoc(t Instant, loc value) value {
	return structure{t.nsec, t.sec, loc}
}

func registerTime() {
	customInit["time"] = func(in *Interp, pkg *ssa.Package) {
		set := func(g, target string) {
			gp := in.globals[pkg.Var(g)]
			*gp = in.globals[pkg.Var(target)]
		}
		set("UTC", "utcLoc")
		set("Local", "localLoc")
	}
	I := intrinsics
	I["time.Now"] = func(in *Interp, fr *frame, fn *ssa.Function, a []value) value { return in.timeValue(in.clock) }
	I["time.Sleep"] = func(in *Interp, fr *frame, fn *ssa.Function, a []value) value {
		in.sleep(a[0].(*Term))
		return nil
	}
	durBetween := func(in *Interp, t, u Instant) *Term {
		// t - u with saturation, as time.Time.Sub
		tc := in.tc
		ds := tc.Sub(t.sec, u.sec)
		d := tc.Add(tc.Mul(ds, tc.Const(64, 1e9)), tc.Sub(t.nsec, u.nsec))
		if d.IsConst() && ds.IsConst() {
			x := signExt(ds.c, 64)
			if x > -9223372035 && x < 9223372035 {
				return d
			}
		}
		lim := tc.Const(64, 9223372035)
		inRange := tc.And(tc.Slt(tc.Neg(lim), ds), tc.Slt(ds, lim))
		// outside the safe band the result saturates (exact at the two boundary seconds
		// is irrelevant for instants between 1970 and 2200 or the zero time)
		sat := tc.Ite(in.instLT(t, u), tc.Const(64, 1<<63), tc.Const(64, 1<<63-1))
		return tc.Ite(inRange, d, sat)
	}
	I["time.Since"] = func(in *Interp, fr *frame, fn *ssa.Function, a []value) value {
		return durBetween(in, in.clock, in.timeInst(a[0]))
	}
	I["time.Until"] = func(in *Interp, fr *frame, fn *ssa.Function, a []value) value {
		return durBetween(in, in.timeInst(a[0]), in.clock)
	}
	I["(time.Time).Sub"] = func(in *Interp, fr *frame, fn *ssa.Function, a []value) value {
		return durBetween(in, in.timeInst(a[0]), in.timeInst(a[1]))
	}
	I["(time.Time).Add"] = func(in *Interp, fr *frame, fn *ssa.Function, a []value) value {
		t := a[0].(structure)
		return in.timeWithLoc(in.instAdd(in.timeInst(t), a[1].(*Term)), t[2])
	}
	I["(time.Time).After"] = func(in *Interp, fr *frame, fn *ssa.Function, a []value) value {
		return in.instLT(in.timeInst(a[1]), in.timeInst(a[0]))
	}
	I["(time.Time).Before"] = func(in *Interp, fr *frame, fn *ssa.Function, a []value) value {
		return in.instLT(in.timeInst(a[0]), in.timeInst(a[1]))
	}
	I["(time.Time).Equal"] = func(in *Interp, fr *frame, fn *ssa.Function, a []value) value {
		x, y := in.timeInst(a[0]), in.timeInst(a[1])
		return in.tc.And(in.tc.Eq(x.sec, y.sec), in.tc.Eq(x.nsec, y.nsec))
	}
	I["(time.Time).Compare"] = func(in *Interp, fr *frame, fn *ssa.Function, a []value) value {
		x, y := in.timeInst(a[0]), in.timeInst(a[1])
		tc := in.tc
		return tc.Ite(in.instLT(x, y), in.i64(-1), tc.Ite(in.instLT(y, x), in.i64(1), in.i64(0)))
	}
	I["(time.Time).IsZero"] = func(in *Interp, fr *frame, fn *ssa.Function, a []value) value {
		x := in.timeInst(a[0])
		return in.tc.And(in.tc.Eq(x.sec, in.i64(0)), in.tc.Eq(x.nsec, in.i64(0)))
	}
	I["(time.Time).Unix"] = func(in *Interp, fr *frame, fn *ssa.Function, a []value) value {
		return in.tc.Sub(in.timeInst(a[0]).sec, in.i64(unixToInternal))
	}
	I["(time.Time).UnixNano"] = func(in *Interp, fr *frame, fn *ssa.Function, a []value) value {
		x := in.timeInst(a[0])
		tc := in.tc
		return tc.Add(tc.Mul(tc.Sub(x.sec, in.i64(unixToInternal)), tc.Const(64, 1e9)), x.nsec)
	}
	I["(time.Time).UnixMilli"] = func(in *Interp, fr *frame, fn *ssa.Function, a []value) value {
		x := in.timeInst(a[0])
		tc := in.tc
		q, _ := tc.DivModConst(x.nsec, 1e6, false)
		return tc.Add(tc.Mul(tc.Sub(x.sec, in.i64(unixToInternal)), tc.Const(64, 1e3)), q)
	}
	I["(time.Time).Nanosecond"] = func(in *Interp, fr *frame, fn *ssa.Function, a []value) value {
		return in.timeInst(a[0]).nsec
	}
	I["(time.Time).UTC"] = func(in *Interp, fr *frame, fn *ssa.Function, a []value) value {
		return in.timeWithLoc(in.timeInst(a[0]), (*value)(nil))
	}
	I["(time.Time).Local"] = func(in *Interp, fr *frame, fn *ssa.Function, a []value) value {
		return in.timeWithLoc(in.timeInst(a[0]), (*value)(nil))
	}
	I["(time.Time).In"] = func(in *Interp, fr *frame, fn *ssa.Function, a []value) value {
		return in.timeWithLoc(in.timeInst(a[0]), a[1])
	}
	I["(time.Time).Location"] = func(in *Interp, fr *frame, fn *ssa.Function, a []value) value {
		l := a[0].(structure)[2].(*value)
		if l == nil {
			return *in.globalAddr(fn.Pkg.Var("UTC"))
		}
		return l
	}
	I["(time.Time).Round"] = func(in *Interp, fr *frame, fn *ssa.Function, a []value) value {
		d, ok := cint(a[1])
		if ok && d <= 0 {
			return a[0]
		}
		panic(engineErr("time.Round with positive duration not modelled"))
	}
	I["(time.Time).Truncate"] = I["(time.Time).Round"]
	fmtTime := func(in *Interp, fr *frame, fn *ssa.Function, a []value) value {
		x := in.timeInst(a[0])
		if x.sec.IsConst() && x.nsec.IsConst() {
			return fmt.Sprintf("T(%d.%09d)", signExt(x.sec.c, 64)-unixToInternal, x.nsec.c)
		}
		return "T(<symbolic>)"
	}
	I["(time.Time).String"] = fmtTime
	I["(time.Time).Format"] = fmtTime
	I["(time.Time).GoString"] = fmtTime
	I["time.Unix"] = func(in *Interp, fr *frame, fn *ssa.Function, a []value) value {
		tc := in.tc
		sec, nsec := a[0].(*Term), a[1].(*Term)
		if !(nsec.rng && nsec.hi < 1e9) {
			// floor division of nsec by 1e9
			q, r := tc.DivModConst(nsec, 1e9, true)
			neg := tc.Slt(r, tc.Const(64, 0))
			q = tc.Ite(neg, tc.Sub(q, tc.Const(64, 1)), q)
			r = tc.WithRange(tc.Ite(neg, tc.Add(r, tc.Const(64, 1e9)), r), 0, 999999999)
			sec = tc.Add(sec, q)
			nsec = r
		}
		return in.timeValue(Instant{sec: tc.Add(sec, in.i64(unixToInternal)), nsec: nsec})
	}
	I["time.UnixMilli"] = func(in *Interp, fr *frame, fn *ssa.Function, a []value) value {
		ms, ok := cint(a[0])
		if !ok {
			panic(engineErr("time.UnixMilli symbolic"))
		}
		return in.timeValue(Instant{sec: in.i64(ms/1000 + unixToInternal), nsec: in.i64(ms % 1000 * 1e6)})
	}
	// timers
	mkTimerStruct := func(in *Interp, ch *Chan) *value {
		var v value = structure{ch, in.tc.False()}
		return &v
	}
	I["time.NewTimer"] = func(in *Interp, fr *frame, fn *ssa.Function, a []value) value {
		t := in.newTimer(a[0].(*Term), "timer@"+in.posString(fr.callpos))
		t.ch = in.newChan(1, nil)
		p := mkTimerStruct(in, t.ch)
		in.side[p] = t
		return p
	}
	I["time.After"] = func(in *Interp, fr *frame, fn *ssa.Function, a []value) value {
		t := in.newTimer(a[0].(*Term), "after@"+in.posString(fr.callpos))
		t.ch = in.newChan(1, nil)
		return t.ch
	}
	I["time.NewTicker"] = func(in *Interp, fr *frame, fn *ssa.Function, a []value) value {
		t := in.newTimer(a[0].(*Term), "ticker@"+in.posString(fr.callpos))
		t.period = a[0].(*Term)
		t.ch = in.newChan(1, nil)
		p := mkTimerStruct(in, t.ch)
		in.side[p] = t
		return p
	}
	I["time.AfterFunc"] = func(in *Interp, fr *frame, fn *ssa.Function, a []value) value {
		t := in.newTimer(a[0].(*Term), "afterfunc@"+in.posString(fr.callpos))
		f := a[1]
		pos := fr.callpos
		t.fn = func() { in.spawnNamed(nil, pos, f, nil, nil, "", false) }
		p := mkTimerStruct(in, nil)
		in.side[p] = t
		return p
	}
	stop := func(in *Interp, fr *frame, fn *ssa.Function, a []value) value {
		in.yield("timer.Stop")
		t, ok := in.side[a[0].(*value)].(*Timer)
		if !ok {
			panic(engineErr("Stop on unknown timer"))
		}
		was := t.active
		t.active = false
		if len(fn.Signature.Results().At(0).Type().String()) == 0 {
			return nil
		}
		return in.tc.Bool(was)
	}
	I["(*time.Timer).Stop"] = stop
	I["(*time.Ticker).Stop"] = func(in *Interp, fr *frame, fn *ssa.Function, a []value) value {
		t, ok := in.side[a[0].(*value)].(*Timer)
		if ok {
			t.active = false
		}
		return nil
	}
	I["(*time.Timer).Reset"] = func(in *Interp, fr *frame, fn *ssa.Function, a []value) value {
		in.yield("timer.Reset")
		t, ok := in.side[a[0].(*value)].(*Timer)
		if !ok {
			panic(engineErr("Reset on unknown timer"))
		}
		was := t.active
		t.active = true
		t.deadline = in.instAdd(in.clock, a[1].(*Term))
		// Go 1.23+ semantics: Reset discards a stale value in the channel
		if t.ch != nil {
			t.ch.buf = nil
		}
		return in.tc.Bool(was)
	}
	I["(*time.Ticker).Reset"] = func(in *Interp, fr *frame, fn *ssa.Function, a []value) value {
		t := in.side[a[0].(*value)].(*Timer)
		t.active = true
		t.period = a[1].(*Term)
		t.deadline = in.instAdd(in.clock, a[1].(*Term))
		return nil
	}
}

// ---------- sync ----------

type mutexState struct {
	locked  bool
	readers int
	owner   *G
}

type wgState struct{ n int }
type onceState struct{ done bool }

func (in *Interp) mutexOf(p value) *mutexState {
	k := p.(*value)
	if m, ok := in.side[k].(*mutexState); ok {
		return m
	}
	m := &mutexState{}
	in.side[k] = m
	return m
}

func registerSync() {
	I := intrinsics
	lock := func(in *Interp, fr *frame, fn *ssa.Function, a []value) value {
		in.yield("Lock")
		m := in.mutexOf(a[0])
		in.block("mutex.Lock", func() bool { return !m.locked && m.readers == 0 })
		m.locked = true
		m.owner = in.curG
		return nil
	}
	unlock := func(in *Interp, fr *frame, fn *ssa.Function, a []value) value {
		m := in.mutexOf(a[0])
		if !m.locked {
			in.targetPanicf(fr, "sync: unlock of unlocked mutex")
		}
		m.locked = false
		return nil
	}
	I["(*sync.Mutex).Lock"] = lock
	I["(*sync.Mutex).Unlock"] = unlock
	I["(*sync.RWMutex).Lock"] = lock
	I["(*sync.RWMutex).Unlock"] = unlock
	I["(*sync.Mutex).TryLock"] = func(in *Interp, fr *frame, fn *ssa.Function, a []value) value {
		in.yield("TryLock")
		m := in.mutexOf(a[0])
		if m.locked || m.readers > 0 {
			return in.tc.False()
		}
		m.locked = true
		return in.tc.True()
	}
	I["(*sync.RWMutex).RLock"] = func(in *Interp, fr *frame, fn *ssa.Function, a []value) value {
		in.yield("RLock")
		m := in.mutexOf(a[0])
		in.block("rwmutex.RLock", func() bool { return !m.locked })
		m.readers++
		return nil
	}
	I["(*sync.RWMutex).RUnlock"] = func(in *Interp, fr *frame, fn *ssa.Function, a []value) value {
		m := in.mutexOf(a[0])
		if m.readers <= 0 {
			in.targetPanicf(fr, "sync: RUnlock of unlocked RWMutex")
		}
		m.readers--
		return nil
	}
	wg := func(in *Interp, p value) *wgState {
		k := p.(*value)
		if w, ok := in.side[k].(*wgState); ok {
			return w
		}
		w := &wgState{}
		in.side[k] = w
		return w
	}
	I["(*sync.WaitGroup).Add"] = func(in *Interp, fr *frame, fn *ssa.Function, a []value) value {
		d, ok := cint(a[1])
		if !ok {
			panic(engineErr("WaitGroup.Add symbolic"))
		}
		w := wg(in, a[0])
		w.n += int(d)
		if w.n < 0 {
			in.targetPanicf(fr, "sync: negative WaitGroup counter")
		}
		return nil
	}
	I["(*sync.WaitGroup).Done"] = func(in *Interp, fr *frame, fn *ssa.Function, a []value) value {
		w := wg(in, a[0])
		w.n--
		if w.n < 0 {
			in.targetPanicf(fr, "sync: negative WaitGroup counter")
		}
		return nil
	}
	I["(*sync.WaitGroup).Wait"] = func(in *Interp, fr *frame, fn *ssa.Function, a []value) value {
		w := wg(in, a[0])
		in.yield("wg.Wait")
		in.block("wg.Wait", func() bool { return w.n == 0 })
		return nil
	}
	I["(*sync.WaitGroup).Go"] = func(in *Interp, fr *frame, fn *ssa.Function, a []value) value {
		w := wg(in, a[0])
		w.n++
		f := a[1]
		body := &NativeFunc{name: "wg.Go", fn: func(in *Interp, _ []value) value {
			in.callValue(f)
			w.n--
			return nil
		}}
		in.spawnNamed(fr, fr.callpos, body, nil, nil, "", true)
		return nil
	}
	I["(*sync.Once).Do"] = func(in *Interp, fr *frame, fn *ssa.Function, a []value) value {
		k := a[0].(*value)
		o, ok := in.side[k].(*onceState)
		if !ok {
			o = &onceState{}
			in.side[k] = o
		}
		if !o.done {
			o.done = true
			in.callValue(a[1])
		}
		return nil
	}
	I["(*sync.Pool).Get"] = func(in *Interp, fr *frame, fn *ssa.Function, a []value) value {
		p := *(a[0].(*value))
		newf := p.(structure)[len(p.(structure))-1]
		if isNilFunc(newf) {
			return iface{}
		}
		return in.callValue(newf)
	}
	I["(*sync.Pool).Put"] = func(in *Interp, fr *frame, fn *ssa.Function, a []value) value { return nil }

	// sync.Map: linearizable model, one engine map per sync.Map address
	smap := func(in *Interp, p value) *Map {
		k := p.(*value)
		if m, ok := in.side[k].(*Map); ok {
			return m
		}
		m := newMap()
		in.side[k] = m
		return m
	}
	I["(*sync.Map).Load"] = func(in *Interp, fr *frame, fn *ssa.Function, a []value) value {
		in.yield("syncmap.Load")
		if e := in.mapFind(smap(in, a[0]), a[1], "sync.Map"); e != nil {
			return tuple{e.val, in.tc.True()}
		}
		return tuple{iface{}, in.tc.False()}
	}
	I["(*sync.Map).Store"] = func(in *Interp, fr *frame, fn *ssa.Function, a []value) value {
		in.yield("syncmap.Store")
		in.mapSet(smap(in, a[0]), a[1], a[2])
		return nil
	}
	I["(*sync.Map).LoadOrStore"] = func(in *Interp, fr *frame, fn *ssa.Function, a []value) value {
		in.yield("syncmap.LoadOrStore")
		m := smap(in, a[0])
		if e := in.mapFind(m, a[1], "sync.Map"); e != nil {
			return tuple{e.val, in.tc.True()}
		}
		in.mapSet(m, a[1], a[2])
		return tuple{a[2], in.tc.False()}
	}
	I["(*sync.Map).LoadAndDelete"] = func(in *Interp, fr *frame, fn *ssa.Function, a []value) value {
		in.yield("syncmap.LoadAndDelete")
		m := smap(in, a[0])
		if e := in.mapFind(m, a[1], "sync.Map"); e != nil {
			v := e.val
			in.mapDelete(m, a[1])
			return tuple{v, in.tc.True()}
		}
		return tuple{iface{}, in.tc.False()}
	}
	I["(*sync.Map).Delete"] = func(in *Interp, fr *frame, fn *ssa.Function, a []value) value {
		in.yield("syncmap.Delete")
		in.mapDelete(smap(in, a[0]), a[1])
		return nil
	}
	I["(*sync.Map).Swap"] = func(in *Interp, fr *frame, fn *ssa.Function, a []value) value {
		in.yield("syncmap.Swap")
		m := smap(in, a[0])
		if e := in.mapFind(m, a[1], "sync.Map"); e != nil {
			old := e.val
			e.val = a[2]
			return tuple{old, in.tc.True()}
		}
		in.mapSet(m, a[1], a[2])
		return tuple{iface{}, in.tc.False()}
	}
	I["(*sync.Map).CompareAndSwap"] = func(in *Interp, fr *frame, fn *ssa.Function, a []value) value {
		in.yield("syncmap.CompareAndSwap")
		m := smap(in, a[0])
		if e := in.mapFind(m, a[1], "sync.Map"); e != nil {
			if in.branch(in.equalsDyn(e.val, a[2]), "syncmap.CAS") {
				e.val = a[3]
				return in.tc.True()
			}
		}
		return in.tc.False()
	}
	I["(*sync.Map).CompareAndDelete"] = func(in *Interp, fr *frame, fn *ssa.Function, a []value) value {
		in.yield("syncmap.CompareAndDelete")
		m := smap(in, a[0])
		if e := in.mapFind(m, a[1], "sync.Map"); e != nil {
			if in.branch(in.equalsDyn(e.val, a[2]), "syncmap.CAD") {
				in.mapDelete(m, a[1])
				return in.tc.True()
			}
		}
		return in.tc.False()
	}
	I["(*sync.Map).Range"] = func(in *Interp, fr *frame, fn *ssa.Function, a []value) value {
		in.yield("syncmap.Range")
		m := smap(in, a[0])
		es := append([]*mapEntry{}, m.entries...)
		for _, e := range es {
			if e.deleted {
				continue
			}
			r := in.callValue(a[1], e.key, e.val).(*Term)
			if !in.branch(r, "syncmap.Range") {
				break
			}
		}
		return nil
	}
	I["(*sync.Map).Clear"] = func(in *Interp, fr *frame, fn *ssa.Function, a []value) value {
		m := smap(in, a[0])
		m.entries, m.index, m.nsym = nil, map[string]*mapEntry{}, 0
		return nil
	}

	// sync/atomic typed values: the value lives in the struct's last field
	cellOf := func(p value) *value {
		st := (*(p.(*value))).(structure)
		return &st[len(st)-1]
	}
	for _, ty := range []string{"Int32", "Int64", "Uint32", "Uint64", "Uintptr", "Bool"} {
		ty := ty
		pre := "(*sync/atomic." + ty + ")."
		I[pre+"Load"] = func(in *Interp, fr *frame, fn *ssa.Function, a []value) value {
			in.yield("atomic.Load")
			v := *cellOf(a[0])
			if ty == "Bool" {
				return in.tc.Not(in.tc.Eq(v.(*Term), in.tc.Const(32, 0)))
			}
			return v
		}
		I[pre+"Store"] = func(in *Interp, fr *frame, fn *ssa.Function, a []value) value {
			in.yield("atomic.Store")
			v := a[1]
			if ty == "Bool" {
				v = in.tc.Ite(a[1].(*Term), in.tc.Const(32, 1), in.tc.Const(32, 0))
			}
			*cellOf(a[0]) = v
			return nil
		}
		I[pre+"Add"] = func(in *Interp, fr *frame, fn *ssa.Function, a []value) value {
			in.yield("atomic.Add")
			c := cellOf(a[0])
			*c = in.tc.Add((*c).(*Term), a[1].(*Term))
			return *c
		}
		I[pre+"Swap"] = func(in *Interp, fr *frame, fn *ssa.Function, a []value) value {
			in.yield("atomic.Swap")
			c := cellOf(a[0])
			old := *c
			if ty == "Bool" {
				*c = in.tc.Ite(a[1].(*Term), in.tc.Const(32, 1), in.tc.Const(32, 0))
				return in.tc.Not(in.tc.Eq(old.(*Term), in.tc.Const(32, 0)))
			}
			*c = a[1]
			return old
		}
		I[pre+"CompareAndSwap"] = func(in *Interp, fr *frame, fn *ssa.Function, a []value) value {
			in.yield("atomic.CAS")
			c := cellOf(a[0])
			old, nw := a[1], a[2]
			if ty == "Bool" {
				old = in.tc.Ite(a[1].(*Term), in.tc.Const(32, 1), in.tc.Const(32, 0))
				nw = in.tc.Ite(a[2].(*Term), in.tc.Const(32, 1), in.tc.Const(32, 0))
			}
			if in.branch(in.tc.Eq((*c).(*Term), old.(*Term)), "atomic.CAS") {
				*c = nw
				return in.tc.True()
			}
			return in.tc.False()
		}
	}
	I["(*sync/atomic.Pointer[T]).Load"] = func(in *Interp, fr *frame, fn *ssa.Function, a []value) value {
		in.yield("atomic.Load")
		v := *cellOf(a[0])
		if u, ok := v.(unsafePtr); ok {
			if u.p == nil {
				return (*value)(nil)
			}
			return u.p
		}
		return v
	}
	I["(*sync/atomic.Pointer[T]).Store"] = func(in *Interp, fr *frame, fn *ssa.Function, a []value) value {
		in.yield("atomic.Store")
		*cellOf(a[0]) = a[1]
		return nil
	}
	I["(*sync/atomic.Pointer[T]).Swap"] = func(in *Interp, fr *frame, fn *ssa.Function, a []value) value {
		in.yield("atomic.Swap")
		c := cellOf(a[0])
		old := *c
		*c = a[1]
		if u, ok := old.(unsafePtr); ok {
			if u.p == nil {
				return (*value)(nil)
			}
			return u.p
		}
		return old
	}
	I["(*sync/atomic.Pointer[T]).CompareAndSwap"] = func(in *Interp, fr *frame, fn *ssa.Function, a []value) value {
		in.yield("atomic.CAS")
		c := cellOf(a[0])
		cur := *c
		if u, ok := cur.(unsafePtr); ok {
			cur = (*value)(nil)
			if u.p != nil {
				cur = u.p
			}
		}
		if cur == a[1] {
			*c = a[2]
			return in.tc.True()
		}
		return in.tc.False()
	}
	I["(*sync/atomic.Value).Load"] = func(in *Interp, fr *frame, fn *ssa.Function, a []value) value {
		in.yield("atomic.Load")
		v := *cellOf(a[0])
		if i, ok := v.(iface); ok {
			return i
		}
		return iface{}
	}
	I["(*sync/atomic.Value).Store"] = func(in *Interp, fr *frame, fn *ssa.Function, a []value) value {
		in.yield("atomic.Store")
		*cellOf(a[0]) = a[1]
		return nil
	}
	for _, w := range []string{"Int32", "Int64", "Uint32", "Uint64"} {
		I["sync/atomic.Load"+w] = func(in *Interp, fr *frame, fn *ssa.Function, a []value) value {
			in.yield("atomic.Load")
			return *(a[0].(*value))
		}
		I["sync/atomic.Store"+w] = func(in *Interp, fr *frame, fn *ssa.Function, a []value) value {
			in.yield("atomic.Store")
			*(a[0].(*value)) = a[1]
			return nil
		}
		I["sync/atomic.Add"+w] = func(in *Interp, fr *frame, fn *ssa.Function, a []value) value {
			in.yield("atomic.Add")
			p := a[0].(*value)
			*p = in.tc.Add((*p).(*Term), a[1].(*Term))
			return *p
		}
		I["sync/atomic.CompareAndSwap"+w] = func(in *Interp, fr *frame, fn *ssa.Function, a []value) value {
			in.yield("atomic.CAS")
			p := a[0].(*value)
			if in.branch(in.tc.Eq((*p).(*Term), a[1].(*Term)), "atomic.CAS") {
				*p = a[2]
				return in.tc.True()
			}
			return in.tc.False()
		}
	}
}

// ---------- context ----------

type EngCtx struct {
	parent     *EngCtx
	key, val   value
	done       *Chan
	err        value // iface
	hasDL      bool
	deadline   Instant
	children   []*EngCtx
	cancelable bool
	cause      value // WithTimeoutCause / WithDeadlineCause: what Cause reports once the deadline has passed
	timedOut   bool
}

func (in *Interp) ctxIfaceType() types.Type {
	if t, ok := in.side["ctxType"].(types.Type); ok {
		return t
	}
	pkg := in.prog.ImportedPackage("context")
	t := types.NewPointer(pkg.Type("cancelCtx").Type())
	in.side["ctxType"] = t
	return t
}

func (in *Interp) ctxValue(c *EngCtx) value { return iface{t: in.ctxIfaceType(), v: c} }

func (in *Interp) ctxGlobal(name string) value {
	pkg := in.prog.ImportedPackage("context")
	return *in.globalAddr(pkg.Var(name))
}

func (c *EngCtx) doneChan() *Chan {
	for x := c; x != nil; x = x.parent {
		if x.done != nil {
			return x.done
		}
	}
	return nil
}

func (in *Interp) ctxCancel(c *EngCtx, err value) {
	if c.err != nil {
		return
	}
	c.err = err
	if c.done != nil && !c.done.closed {
		c.done.closed = true
	}
	for _, ch := range c.children {
		in.ctxCancel(ch, err)
	}
}

func ctxOf(v value) *EngCtx {
	if i, ok := v.(iface); ok {
		if c, ok := i.v.(*EngCtx); ok {
			return c
		}
		if i.t == nil {
			return nil
		}
	}
	panic(engineErr("context value is not engine-made: %s", show(v)))
}

func ctxMethod(c *EngCtx, meth *types.Func) value {
	switch meth.Name() {
	case "Done":
		return &NativeFunc{name: "ctx.Done", fn: func(in *Interp, a []value) value {
			if d := c.doneChan(); d != nil {
				return d
			}
			return (*Chan)(nil)
		}}
	case "Err":
		return &NativeFunc{name: "ctx.Err", fn: func(in *Interp, a []value) value {
			for x := c; x != nil; x = x.parent {
				if x.err != nil {
					return x.err
				}
			}
			return iface{}
		}}
	case "Value":
		return &NativeFunc{name: "ctx.Value", fn: func(in *Interp, a []value) value {
			for x := c; x != nil; x = x.parent {
				if x.key != nil {
					e := in.equalsDyn(x.key, a[1])
					if !e.IsConst() {
						panic(engineErr("symbolic context key"))
					}
					if e.c == 1 {
						return x.val
					}
				}
			}
			return iface{}
		}}
	case "Deadline":
		return &NativeFunc{name: "ctx.Deadline", fn: func(in *Interp, a []value) value {
			for x := c; x != nil; x = x.parent {
				if x.hasDL {
					return tuple{in.timeValue(x.deadline), in.tc.True()}
				}
			}
			return tuple{in.timeValue(Instant{sec: in.i64(0), nsec: in.i64(0)}), in.tc.False()}
		}}
	}
	panic(engineErr("context method %s not modelled", meth.Name()))
}

func registerContext() {
	I := intrinsics
	bg := func(in *Interp, fr *frame, fn *ssa.Function, a []value) value {
		if c, ok := in.side["bgctx"].(*EngCtx); ok {
			return in.ctxValue(c)
		}
		c := &EngCtx{}
		in.side["bgctx"] = c
		return in.ctxValue(c)
	}
	I["context.Background"] = bg
	I["context.TODO"] = bg
	I["context.WithValue"] = func(in *Interp, fr *frame, fn *ssa.Function, a []value) value {
		p := ctxOf(a[0])
		return in.ctxValue(&EngCtx{parent: p, key: a[1], val: a[2]})
	}
	I["context.WithoutCancel"] = func(in *Interp, fr *frame, fn *ssa.Function, a []value) value {
		// keeps values, drops cancellation: copy the value chain
		p := ctxOf(a[0])
		var chain []*EngCtx
		for x := p; x != nil; x = x.parent {
			if x.key != nil {
				chain = append(chain, x)
			}
		}
		c := &EngCtx{}
		for i := len(chain) - 1; i >= 0; i-- {
			c = &EngCtx{parent: c, key: chain[i].key, val: chain[i].val}
		}
		return in.ctxValue(c)
	}
	newCancel := func(in *Interp, parent *EngCtx) *EngCtx {
		c := &EngCtx{parent: parent, done: in.newChan(0, nil), cancelable: true}
		// register with nearest cancelable ancestor; inherit an existing cancellation
		for x := parent; x != nil; x = x.parent {
			if x.err != nil {
				c.err = x.err
				c.done.closed = true
				break
			}
			if x.cancelable {
				x.children = append(x.children, c)
				break
			}
		}
		return c
	}
	cancelFunc := func(in *Interp, c *EngCtx) value {
		return &NativeFunc{name: "cancel", fn: func(in *Interp, a []value) value {
			in.ctxCancel(c, in.ctxGlobal("Canceled"))
			return nil
		}}
	}
	I["context.WithCancel"] = func(in *Interp, fr *frame, fn *ssa.Function, a []value) value {
		c := newCancel(in, ctxOf(a[0]))
		return tuple{in.ctxValue(c), cancelFunc(in, c)}
	}
	withDeadline := func(in *Interp, parent *EngCtx, dl Instant, d *Term, cause value) value {
		c := newCancel(in, parent)
		c.hasDL, c.deadline = true, dl
		c.cause = cause
		var t *Timer
		if d != nil {
			t = in.newTimer(d, "ctx-deadline")
		} else {
			in.timerSeq++
			t = &Timer{id: in.timerSeq, deadline: dl, active: true, what: "ctx-deadline"}
			in.timers = append(in.timers, t)
		}
		t.fn = func() {
			if c.err == nil {
				c.timedOut = true
			}
			in.ctxCancel(c, in.ctxGlobal("DeadlineExceeded"))
		}
		cf := &NativeFunc{name: "cancel", fn: func(in *Interp, a []value) value {
			t.active = false
			in.ctxCancel(c, in.ctxGlobal("Canceled"))
			return nil
		}}
		return tuple{in.ctxValue(c), cf}
	}
	I["context.WithTimeout"] = func(in *Interp, fr *frame, fn *ssa.Function, a []value) value {
		d := a[1].(*Term)
		return withDeadline(in, ctxOf(a[0]), in.instAdd(in.clock, d), d, nil)
	}
	I["context.WithTimeoutCause"] = func(in *Interp, fr *frame, fn *ssa.Function, a []value) value {
		d := a[1].(*Term)
		return withDeadline(in, ctxOf(a[0]), in.instAdd(in.clock, d), d, a[2])
	}
	I["context.WithDeadline"] = func(in *Interp, fr *frame, fn *ssa.Function, a []value) value {
		return withDeadline(in, ctxOf(a[0]), in.timeInst(a[1]), nil, nil)
	}
	I["context.WithDeadlineCause"] = func(in *Interp, fr *frame, fn *ssa.Function, a []value) value {
		return withDeadline(in, ctxOf(a[0]), in.timeInst(a[1]), nil, a[2])
	}
	I["context.Cause"] = func(in *Interp, fr *frame, fn *ssa.Function, a []value) value {
		for x := ctxOf(a[0]); x != nil; x = x.parent {
			if x.err != nil {
				if x.timedOut && x.cause != nil {
					if ci, ok := x.cause.(iface); ok && ci.t != nil {
						return x.cause
					}
				}
				return x.err
			}
		}
		return iface{}
	}
}

// ---------- errors / fmt ----------

type EngErr struct {
	msg     string
	wrapped []value // ifaces
	id      int
}

func (in *Interp) errType() types.Type {
	if t, ok := in.side["errType"].(types.Type); ok {
		return t
	}
	pkg := in.prog.ImportedPackage("errors")
	t := types.NewPointer(pkg.Type("errorString").Type())
	in.side["errType"] = t
	return t
}

func (in *Interp) newErr(msg string, wrapped ...value) value {
	in.errSeq++
	return iface{t: in.errTypeEng(), v: &EngErr{msg: msg, wrapped: wrapped, id: in.errSeq}}
}

func (in *Interp) errTypeEng() types.Type {
	if t, ok := in.side["errTypeEng"].(types.Type); ok {
		return t
	}
	pkg := in.prog.ImportedPackage("fmt")
	var t types.Type
	if pkg != nil && pkg.Type("wrapError") != nil {
		t = types.NewPointer(pkg.Type("wrapError").Type())
	} else {
		t = in.errType()
	}
	in.side["errTypeEng"] = t
	return t
}

func errMethod(e *EngErr, meth *types.Func) value {
	switch meth.Name() {
	case "Error":
		return &NativeFunc{name: "err.Error", fn: func(in *Interp, a []value) value { return e.msg }}
	case "Unwrap":
		return &NativeFunc{name: "err.Unwrap", fn: func(in *Interp, a []value) value {
			if len(e.wrapped) > 0 {
				return e.wrapped[0]
			}
			return iface{}
		}}
	}
	panic(engineErr("error method %s not modelled", meth.Name()))
}

// errText calls Error() on an error value.
func (in *Interp) errText(v value) string {
	i := v.(iface)
	if i.t == nil {
		return "<nil>"
	}
	if e, ok := i.v.(*EngErr); ok {
		return e.msg
	}
	if !in.hasMethod(i.t, "Error") {
		return "<error?>"
	}
	m := in.prog.LookupMethod(i.t, nil, "Error")
	if m == nil {
		return "<error?>"
	}
	r := in.callValue(m, i.v)
	s, ok := concreteStr(r)
	if !ok {
		return "<symbolic>"
	}
	return s
}

func (in *Interp) unwrapAll(v value) []value {
	i := v.(iface)
	if i.t == nil {
		return nil
	}
	if e, ok := i.v.(*EngErr); ok {
		return e.wrapped
	}
	if !in.hasMethod(i.t, "Unwrap") {
		return nil
	}
	if m := in.prog.LookupMethod(i.t, nil, "Unwrap"); m != nil {
		r := in.callValue(m, i.v)
		switch r := r.(type) {
		case iface:
			if r.t != nil {
				return []value{r}
			}
		case []value:
			return r
		}
	}
	return nil
}

func (in *Interp) errorsIs(err, target value) bool {
	e := err.(iface)
	if e.t == nil {
		return target.(iface).t == nil
	}
	t := target.(iface)
	if t.t != nil && types.Identical(e.t, t.t) && types.Comparable(e.t) {
		c := in.equalsDyn(e, t)
		if c.IsConst() && c.c == 1 {
			return true
		}
		if !c.IsConst() && in.branch(c, "errors.Is") {
			return true
		}
	}
	if _, isEng := e.v.(*EngErr); !isEng {
		if !in.hasMethod(e.t, "Is") {
		} else if m := in.prog.LookupMethod(e.t, nil, "Is"); m != nil {
			r := in.callValue(m, e.v, target).(*Term)
			if in.branch(r, "errors.Is method") {
				return true
			}
		}
	}
	for _, w := range in.unwrapAll(err) {
		if in.errorsIs(w, target) {
			return true
		}
	}
	return false
}

// fmtArg converts an interface-typed argument into a host value for fmt.
func (in *Interp) fmtArg(v value, strict bool) any {
	i, ok := v.(iface)
	if !ok {
		return show(v)
	}
	if i.t == nil {
		return nil
	}
	switch x := i.v.(type) {
	case *Term:
		if !x.IsConst() {
			if strict {
				panic(engineErr("formatting a symbolic value into a string that is used as data"))
			}
			return "<sym>"
		}
		if x.w == 0 {
			return x.c == 1
		}
		if _, signed, ok := isInt(i.t); ok {
			if n, isNamed := i.t.(*types.Named); isNamed && in.hasMethod(i.t, "String") && n != nil {
				break
			}
			if signed {
				switch x.w {
				case 64:
					return signExt(x.c, 64)
				case 32:
					return int32(signExt(x.c, 32))
				}
				return signExt(x.c, x.w)
			}
			switch x.w {
			case 8:
				return uint8(x.c)
			case 32:
				return uint32(x.c)
			}
			return x.c
		}
	case string:
		if !in.hasMethod(i.t, "String") && !in.hasMethod(i.t, "Error") {
			return x
		}
	case *SymStr:
		if s, ok := concreteStr(x); ok {
			return s
		}
		if strict {
			panic(engineErr("formatting a symbolic string into a string that is used as data"))
		}
		return "<symstr>"
	case Float:
		return x.v
	case *EngErr:
		return fmtError{x.msg}
	case *Opaque:
		return "<" + x.name + ">"
	}
	if in.hasMethod(i.t, "Error") {
		return fmtError{in.errText(i)}
	}
	if bs, ok := i.v.([]value); ok {
		if el, isSlice := under(i.t).(*types.Slice); isSlice {
			if b := basicOf(el.Elem()); b != nil && b.Kind() == types.Uint8 {
				out := make([]byte, len(bs))
				for k, x := range bs {
					t, ok := x.(*Term)
					if !ok || !t.IsConst() {
						if strict {
							panic(engineErr("formatting symbolic bytes"))
						}
						return "<symbolic bytes>"
					}
					out[k] = byte(t.c)
				}
				return out
			}
		}
	}
	if !in.hasMethod(i.t, "String") {
		// no Stringer: fall through to structural rendering
	} else if m := in.prog.LookupMethod(i.t, nil, "String"); m != nil && m.Signature.Params().Len() == 0 {
		func() {
			defer func() {
				if r := recover(); r != nil {
					if _, isT := r.(targetPanic); isT {
						return
					}
					panic(r)
				}
			}()
		}()
		r := in.callValue(m, i.v)
		if s, ok := concreteStr(r); ok {
			return fmtStringer{s}
		}
		if strict {
			panic(engineErr("formatting a symbolic Stringer"))
		}
		return "<symbolic>"
	}
	switch x := i.v.(type) {
	case []value:
		// []string / []byte
		var parts []string
		for _, e := range x {
			if s, ok := concreteStr(e); ok {
				parts = append(parts, s)
			} else {
				parts = append(parts, show(e))
			}
		}
		return parts
	}
	return show(i.v)
}

type fmtError struct{ s string }

func (e fmtError) Error() string { return e.s }

type fmtStringer struct{ s string }

func (e fmtStringer) String() string { return e.s }

func (in *Interp) hasMethod(t types.Type, name string) bool {
	ms := in.prog.MethodSets.MethodSet(t)
	for i := 0; i < ms.Len(); i++ {
		if ms.At(i).Obj().Name() == name {
			return true
		}
	}
	return false
}

func registerErrorsFmt() {
	I := intrinsics
	sprintf := func(strict bool) intrinsic {
		return func(in *Interp, fr *frame, fn *ssa.Function, a []value) (res value) {
			format := in.mustStr(a[0], "Sprintf format")
			// a symbolic argument makes the result an unknown string: fresh symbolic
			// bytes (over-approximates the content; the length is a stand-in)
			defer func() {
				if r := recover(); r != nil {
					if e, ok := r.(*EngineError); ok && strings.HasPrefix(e.msg, "formatting a symbolic") {
						out := &SymStr{b: make([]*Term, 12)}
						for i := range out.b {
							out.b[i] = in.tc.Fresh("fmt", 8)
						}
						res = out
						return
					}
					panic(r)
				}
			}()
			if r, ok := in.sprintfSym(format, a[1].([]value)); ok {
				return r
			}
			var args []any
			for _, v := range a[1].([]value) {
				args = append(args, in.fmtArg(v, strict))
			}
			return fmt.Sprintf(format, args...)
		}
	}
	I["fmt.Sprintf"] = sprintf(true)
	I["fmt.Sprint"] = func(in *Interp, fr *frame, fn *ssa.Function, a []value) value {
		var args []any
		for _, v := range a[0].([]value) {
			args = append(args, in.fmtArg(v, true))
		}
		return fmt.Sprint(args...)
	}
	I["fmt.Sprintln"] = func(in *Interp, fr *frame, fn *ssa.Function, a []value) value {
		var args []any
		for _, v := range a[0].([]value) {
			args = append(args, in.fmtArg(v, true))
		}
		return fmt.Sprintln(args...)
	}
	I["fmt.Errorf"] = func(in *Interp, fr *frame, fn *ssa.Function, a []value) value {
		format := in.mustStr(a[0], "Errorf format")
		var args []any
		var wrapped []value
		// find %w operands
		verbs := verbsOf(format)
		for k, v := range a[1].([]value) {
			args = append(args, in.fmtArg(v, false))
			if k < len(verbs) && verbs[k] == 'w' {
				if i, ok := v.(iface); ok && i.t != nil {
					wrapped = append(wrapped, v)
				}
			}
		}
		msg := fmt.Sprintf(strings.ReplaceAll(format, "%w", "%v"), args...)
		return in.newErr(msg, wrapped...)
	}
	for _, n := range []string{"fmt.Printf", "fmt.Println", "fmt.Print", "fmt.Fprintf", "fmt.Fprintln", "fmt.Fprint"} {
		n := n
		I[n] = func(in *Interp, fr *frame, fn *ssa.Function, a []value) value {
			return tuple{in.i64(0), iface{}}
		}
	}
	I["errors.Is"] = func(in *Interp, fr *frame, fn *ssa.Function, a []value) value {
		return in.tc.Bool(in.errorsIs(a[0], a[1]))
	}
	I["errors.Unwrap"] = func(in *Interp, fr *frame, fn *ssa.Function, a []value) value {
		ws := in.unwrapAll(a[0])
		if len(ws) == 1 {
			return ws[0]
		}
		return iface{}
	}
	I["errors.Join"] = func(in *Interp, fr *frame, fn *ssa.Function, a []value) value {
		var ws []value
		var msgs []string
		for _, e := range a[0].([]value) {
			if e.(iface).t != nil {
				ws = append(ws, e)
				msgs = append(msgs, in.errText(e))
			}
		}
		if len(ws) == 0 {
			return iface{}
		}
		return in.newErr(strings.Join(msgs, "\n"), ws...)
	}
	I["errors.As"] = func(in *Interp, fr *frame, fn *ssa.Function, a []value) value {
		tgt := a[1].(iface)
		pt, ok := tgt.t.(*types.Pointer)
		if !ok {
			panic(engineErr("errors.As target not a pointer"))
		}
		want := pt.Elem()
		var walk func(e value) bool
		walk = func(e value) bool {
			ei := e.(iface)
			if ei.t == nil {
				return false
			}
			if it, isI := under(want).(*types.Interface); isI {
				if in.implements(ei, it) {
					*(tgt.v.(*value)) = ei
					return true
				}
			} else if types.Identical(ei.t, want) {
				*(tgt.v.(*value)) = ei.v
				return true
			}
			for _, w := range in.unwrapAll(e) {
				if walk(w) {
					return true
				}
			}
			return false
		}
		return in.tc.Bool(walk(a[0]))
	}
}

func verbsOf(format string) []byte {
	var out []byte
	for i := 0; i < len(format); i++ {
		if format[i] != '%' {
			continue
		}
		i++
		for i < len(format) && strings.IndexByte("+-# 0123456789.[]*", format[i]) >= 0 {
			i++
		}
		if i < len(format) {
			if format[i] == '%' {
				continue
			}
			out = append(out, format[i])
		}
	}
	return out
}

// ---------- strings / strconv on concrete data ----------

func registerStrings() {
	I := intrinsics
	conc := func(a []value) ([]string, bool) {
		out := make([]string, len(a))
		for i, v := range a {
			s, ok := concreteStr(v)
			if !ok {
				return nil, false
			}
			out[i] = s
		}
		return out, true
	}
	// wrap: native when all string args are concrete, else interpret the real code
	native := func(name string, f func(in *Interp, s []string, a []value) value) {
		I[name] = func(in *Interp, fr *frame, fn *ssa.Function, a []value) value {
			var strs []value
			for _, v := range a {
				switch v.(type) {
				case string, *SymStr:
					strs = append(strs, v)
				}
			}
			if s, ok := conc(strs); ok {
				return f(in, s, a)
			}
			return in.interpretBody(fr, fn, a)
		}
	}
	b := func(in *Interp, x bool) value { return in.tc.Bool(x) }
	native("strings.HasPrefix", func(in *Interp, s []string, a []value) value { return b(in, strings.HasPrefix(s[0], s[1])) })
	native("strings.HasSuffix", func(in *Interp, s []string, a []value) value { return b(in, strings.HasSuffix(s[0], s[1])) })
	native("strings.Contains", func(in *Interp, s []string, a []value) value { return b(in, strings.Contains(s[0], s[1])) })
	native("strings.ContainsAny", func(in *Interp, s []string, a []value) value { return b(in, strings.ContainsAny(s[0], s[1])) })
	native("strings.EqualFold", func(in *Interp, s []string, a []value) value { return b(in, strings.EqualFold(s[0], s[1])) })
	native("strings.Index", func(in *Interp, s []string, a []value) value { return in.i64(int64(strings.Index(s[0], s[1]))) })
	native("strings.LastIndex", func(in *Interp, s []string, a []value) value { return in.i64(int64(strings.LastIndex(s[0], s[1]))) })
	native("strings.Count", func(in *Interp, s []string, a []value) value { return in.i64(int64(strings.Count(s[0], s[1]))) })
	native("strings.Compare", func(in *Interp, s []string, a []value) value { return in.i64(int64(strings.Compare(s[0], s[1]))) })
	native("strings.TrimSpace", func(in *Interp, s []string, a []value) value { return strings.TrimSpace(s[0]) })
	native("strings.ToLower", func(in *Interp, s []string, a []value) value { return strings.ToLower(s[0]) })
	native("strings.ToUpper", func(in *Interp, s []string, a []value) value { return strings.ToUpper(s[0]) })
	native("strings.TrimPrefix", func(in *Interp, s []string, a []value) value { return strings.TrimPrefix(s[0], s[1]) })
	native("strings.TrimSuffix", func(in *Interp, s []string, a []value) value { return strings.TrimSuffix(s[0], s[1]) })
	native("strings.Trim", func(in *Interp, s []string, a []value) value { return strings.Trim(s[0], s[1]) })
	native("strings.TrimLeft", func(in *Interp, s []string, a []value) value { return strings.TrimLeft(s[0], s[1]) })
	native("strings.TrimRight", func(in *Interp, s []string, a []value) value { return strings.TrimRight(s[0], s[1]) })
	native("strings.ReplaceAll", func(in *Interp, s []string, a []value) value { return strings.ReplaceAll(s[0], s[1], s[2]) })
	native("strings.Title", func(in *Interp, s []string, a []value) value { return strings.Title(s[0]) })
	native("strings.Repeat", func(in *Interp, s []string, a []value) value {
		n, ok := cint(a[1])
		if !ok {
			panic(engineErr("strings.Repeat symbolic count"))
		}
		return strings.Repeat(s[0], int(n))
	})
	strSlice := func(xs []string) value {
		if xs == nil {
			return []value(nil)
		}
		out := make([]value, len(xs))
		for i, x := range xs {
			out[i] = x
		}
		return out
	}
	native("strings.Split", func(in *Interp, s []string, a []value) value { return strSlice(strings.Split(s[0], s[1])) })
	native("strings.SplitN", func(in *Interp, s []string, a []value) value {
		n, _ := cint(a[2])
		return strSlice(strings.SplitN(s[0], s[1], int(n)))
	})
	native("strings.Fields", func(in *Interp, s []string, a []value) value { return strSlice(strings.Fields(s[0])) })
	native("strings.IndexByte", func(in *Interp, s []string, a []value) value {
		c, ok := cint(a[1])
		if !ok {
			panic(engineErr("strings.IndexByte symbolic byte"))
		}
		return in.i64(int64(strings.IndexByte(s[0], byte(c))))
	})
	native("strings.IndexRune", func(in *Interp, s []string, a []value) value {
		c, ok := cint(a[1])
		if !ok {
			panic(engineErr("strings.IndexRune symbolic rune"))
		}
		return in.i64(int64(strings.IndexRune(s[0], rune(c))))
	})
	native("strings.ContainsRune", func(in *Interp, s []string, a []value) value {
		c, ok := cint(a[1])
		if !ok {
			// symbolic rune against a concrete set: one boolean term, no fork
			r := a[1].(*Term)
			var alts []*Term
			for _, x := range s[0] {
				alts = append(alts, in.tc.Eq(r, in.tc.Const(r.w, uint64(uint32(x)))))
			}
			return in.tc.Or(alts...)
		}
		return b(in, strings.ContainsRune(s[0], rune(c)))
	})
	I["strings.Join"] = func(in *Interp, fr *frame, fn *ssa.Function, a []value) value {
		var parts []string
		for _, e := range a[0].([]value) {
			s, ok := concreteStr(e)
			if !ok {
				return in.interpretBody(fr, fn, a)
			}
			parts = append(parts, s)
		}
		sep, ok := concreteStr(a[1])
		if !ok {
			return in.interpretBody(fr, fn, a)
		}
		return strings.Join(parts, sep)
	}
	I["unicode/utf8.ValidString"] = func(in *Interp, fr *frame, fn *ssa.Function, a []value) value {
		if s, ok := concreteStr(a[0]); ok {
			return in.tc.Bool(utf8.ValidString(s))
		}
		bs := a[0].(*SymStr).b
		for i := 0; i < len(bs); {
			r, n := in.decodeRuneSym(bs[i:])
			if n == 1 && r.IsConst() && r.c == uint64(utf8.RuneError) {
				return in.tc.False()
			}
			i += n
		}
		return in.tc.True()
	}
	I["unicode/utf8.Valid"] = func(in *Interp, fr *frame, fn *ssa.Function, a []value) value {
		bs := a[0].([]value)
		ts := make([]*Term, len(bs))
		for i, x := range bs {
			ts[i] = x.(*Term)
		}
		for i := 0; i < len(ts); {
			r, n := in.decodeRuneSym(ts[i:])
			if n == 1 && r.IsConst() && r.c == uint64(utf8.RuneError) {
				return in.tc.False()
			}
			i += n
		}
		return in.tc.True()
	}
	I["unicode.IsSpace"] = func(in *Interp, fr *frame, fn *ssa.Function, a []value) value {
		r := a[0].(*Term)
		if r.IsConst() {
			return in.tc.Bool(unicode.IsSpace(rune(signExt(r.c, 32))))
		}
		// one boolean term from the White_Space table
		var alts []*Term
		c := func(v uint32) *Term { return in.tc.Const(r.w, uint64(v)) }
		for _, rg := range unicode.White_Space.R16 {
			for v := uint32(rg.Lo); v <= uint32(rg.Hi); v += uint32(rg.Stride) {
				if rg.Stride == 1 {
					alts = append(alts, in.tc.And(in.tc.Ule(c(uint32(rg.Lo)), r), in.tc.Ule(r, c(uint32(rg.Hi)))))
					break
				}
				alts = append(alts, in.tc.Eq(r, c(v)))
			}
		}
		return in.tc.Or(alts...)
	}
	native("unicode/utf8.RuneCountInString", func(in *Interp, s []string, a []value) value {
		return in.i64(int64(utf8.RuneCountInString(s[0])))
	})
	native("strconv.Atoi", func(in *Interp, s []string, a []value) value {
		n, err := strconv.Atoi(s[0])
		if err != nil {
			return tuple{in.i64(0), in.newErr(err.Error())}
		}
		return tuple{in.i64(int64(n)), iface{}}
	})
	native("strconv.Quote", func(in *Interp, s []string, a []value) value { return strconv.Quote(s[0]) })
	native("strconv.Unquote", func(in *Interp, s []string, a []value) value {
		r, err := strconv.Unquote(s[0])
		if err != nil {
			return tuple{"", in.newErr(err.Error())}
		}
		return tuple{r, iface{}}
	})
	native("strconv.ParseBool", func(in *Interp, s []string, a []value) value {
		r, err := strconv.ParseBool(s[0])
		if err != nil {
			return tuple{in.tc.False(), in.newErr(err.Error())}
		}
		return tuple{in.tc.Bool(r), iface{}}
	})
	native("strconv.ParseInt", func(in *Interp, s []string, a []value) value {
		base, _ := cint(a[1])
		bits, _ := cint(a[2])
		r, err := strconv.ParseInt(s[0], int(base), int(bits))
		if err != nil {
			return tuple{in.i64(r), in.newErr(err.Error())}
		}
		return tuple{in.i64(r), iface{}}
	})
	native("strconv.ParseUint", func(in *Interp, s []string, a []value) value {
		base, _ := cint(a[1])
		bits, _ := cint(a[2])
		r, err := strconv.ParseUint(s[0], int(base), int(bits))
		if err != nil {
			return tuple{in.tc.Const(64, r), in.newErr(err.Error())}
		}
		return tuple{in.tc.Const(64, r), iface{}}
	})
	native("strconv.ParseFloat", func(in *Interp, s []string, a []value) value {
		bits, _ := cint(a[1])
		r, err := strconv.ParseFloat(s[0], int(bits))
		if err != nil {
			return tuple{Float{v: r}, in.newErr(err.Error())}
		}
		return tuple{Float{v: r}, iface{}}
	})
	I["strconv.Itoa"] = func(in *Interp, fr *frame, fn *ssa.Function, a []value) value {
		n, ok := cint(a[0])
		if !ok {
			panic(engineErr("strconv.Itoa symbolic"))
		}
		return strconv.Itoa(int(n))
	}
	I["strconv.FormatInt"] = func(in *Interp, fr *frame, fn *ssa.Function, a []value) value {
		n, ok := cint(a[0])
		base, _ := cint(a[1])
		if !ok {
			panic(engineErr("strconv.FormatInt symbolic"))
		}
		return strconv.FormatInt(n, int(base))
	}
	I["strconv.FormatUint"] = func(in *Interp, fr *frame, fn *ssa.Function, a []value) value {
		t := a[0].(*Term)
		base, _ := cint(a[1])
		if !t.IsConst() {
			panic(engineErr("strconv.FormatUint symbolic"))
		}
		return strconv.FormatUint(t.c, int(base))
	}
	I["strconv.FormatBool"] = func(in *Interp, fr *frame, fn *ssa.Function, a []value) value {
		t := a[0].(*Term)
		if !t.IsConst() {
			panic(engineErr("strconv.FormatBool symbolic"))
		}
		return strconv.FormatBool(t.c == 1)
	}
	I["strconv.FormatFloat"] = func(in *Interp, fr *frame, fn *ssa.Function, a []value) value {
		f := a[0].(Float)
		c, _ := cint(a[1])
		p, _ := cint(a[2])
		bs, _ := cint(a[3])
		return strconv.FormatFloat(f.v, byte(c), int(p), int(bs))
	}
	// internal/bytealg and friends (assembly in the real build)
	I["internal/bytealg.IndexByteString"] = func(in *Interp, fr *frame, fn *ssa.Function, a []value) value {
		s := in.toSymStr(a[0])
		c := a[1].(*Term)
		for i, b := range s.b {
			if in.branch(in.tc.Eq(b, c), "IndexByteString") {
				return in.i64(int64(i))
			}
		}
		return in.i64(-1)
	}
	I["internal/bytealg.IndexByte"] = func(in *Interp, fr *frame, fn *ssa.Function, a []value) value {
		c := a[1].(*Term)
		for i, b := range a[0].([]value) {
			if in.branch(in.tc.Eq(b.(*Term), c), "IndexByte") {
				return in.i64(int64(i))
			}
		}
		return in.i64(-1)
	}
	I["internal/bytealg.CountString"] = func(in *Interp, fr *frame, fn *ssa.Function, a []value) value {
		s := in.toSymStr(a[0])
		c := a[1].(*Term)
		n := in.i64(0)
		for _, b := range s.b {
			n = in.tc.Add(n, in.tc.Ite(in.tc.Eq(b, c), in.i64(1), in.i64(0)))
		}
		return n
	}
	I["internal/bytealg.Equal"] = func(in *Interp, fr *frame, fn *ssa.Function, a []value) value {
		x, y := a[0].([]value), a[1].([]value)
		if len(x) != len(y) {
			return in.tc.False()
		}
		var cs []*Term
		for i := range x {
			cs = append(cs, in.equalsDyn(x[i], y[i]))
		}
		return in.tc.And(cs...)
	}
	I["internal/bytealg.Compare"] = func(in *Interp, fr *frame, fn *ssa.Function, a []value) value {
		x, y := a[0].([]value), a[1].([]value)
		sx, sy := &SymStr{}, &SymStr{}
		for _, b := range x {
			sx.b = append(sx.b, b.(*Term))
		}
		for _, b := range y {
			sy.b = append(sy.b, b.(*Term))
		}
		lt := in.symStrLess(sx, sy, false)
		gt := in.symStrLess(sy, sx, false)
		return in.tc.Ite(lt, in.i64(-1), in.tc.Ite(gt, in.i64(1), in.i64(0)))
	}
	I["internal/stringslite.Index"] = I["strings.Index"]
	I["maps.clone"] = func(in *Interp, fr *frame, fn *ssa.Function, a []value) value {
		i := a[0].(iface)
		m, _ := i.v.(*Map)
		if m == nil {
			return i
		}
		out := newMap()
		for _, e := range m.entries {
			if !e.deleted {
				in.mapSet(out, e.key, e.val)
			}
		}
		return iface{t: i.t, v: out}
	}
	I["internal/bytealg.MakeNoZero"] = func(in *Interp, fr *frame, fn *ssa.Function, a []value) value {
		n := in.concreteInt(a[0].(*Term), true, "MakeNoZero")
		out := make([]value, n)
		for i := range out {
			out[i] = in.tc.Const(8, 0)
		}
		return out
	}
	I["(*strings.Replacer).Replace"] = func(in *Interp, fr *frame, fn *ssa.Function, a []value) value {
		st := (*(a[0].(*value))).(structure)
		var oldnew []string
		for _, v := range st[len(st)-1].([]value) {
			oldnew = append(oldnew, in.mustStr(v, "Replacer pairs"))
		}
		if s, ok := concreteStr(a[1]); ok {
			return strings.NewReplacer(oldnew...).Replace(s)
		}
		for i := 0; i < len(oldnew); i += 2 {
			if len(oldnew[i]) != 1 {
				panic(engineErr("strings.Replacer with multi-byte patterns on a symbolic string"))
			}
		}
		out := &SymStr{}
	bytes:
		for _, b := range a[1].(*SymStr).b {
			for i := 0; i < len(oldnew); i += 2 {
				if in.branch(in.tc.Eq(b, in.tc.Const(8, uint64(oldnew[i][0]))), "Replacer") {
					for _, c := range []byte(oldnew[i+1]) {
						out.b = append(out.b, in.tc.Const(8, uint64(c)))
					}
					continue bytes
				}
			}
			out.b = append(out.b, b)
		}
		return out
	}
	I["reflect.DeepEqual"] = func(in *Interp, fr *frame, fn *ssa.Function, a []value) value {
		return in.deepEqual(a[0], a[1], 0)
	}
	I["internal/abi.NoEscape"] = func(in *Interp, fr *frame, fn *ssa.Function, a []value) value { return a[0] }
	I["internal/abi.Escape"] = func(in *Interp, fr *frame, fn *ssa.Function, a []value) value { return a[0] }
	I["internal/race.Enabled"] = func(in *Interp, fr *frame, fn *ssa.Function, a []value) value { return in.tc.False() }
	I["(*strings.Builder).copyCheck"] = func(in *Interp, fr *frame, fn *ssa.Function, a []value) value { return nil }
	I["unicode/utf8.DecodeRuneInString"] = func(in *Interp, fr *frame, fn *ssa.Function, a []value) value {
		if s, ok := concreteStr(a[0]); ok {
			r, n := utf8.DecodeRuneInString(s)
			return tuple{in.tc.Const(32, uint64(r)), in.i64(int64(n))}
		}
		s := a[0].(*SymStr)
		if len(s.b) == 0 {
			return tuple{in.tc.Const(32, uint64(utf8.RuneError)), in.i64(0)}
		}
		r, n := in.decodeRuneSym(s.b)
		return tuple{r, in.i64(int64(n))}
	}
	I["unicode/utf8.DecodeRune"] = func(in *Interp, fr *frame, fn *ssa.Function, a []value) value {
		bs := a[0].([]value)
		if len(bs) == 0 {
			return tuple{in.tc.Const(32, uint64(utf8.RuneError)), in.i64(0)}
		}
		ts := make([]*Term, len(bs))
		for i, b := range bs {
			ts[i] = b.(*Term)
		}
		r, n := in.decodeRuneSym(ts)
		return tuple{r, in.i64(int64(n))}
	}
}

// interpretBody runs the SSA body of fn, bypassing the intrinsic table.
func (in *Interp) interpretBody(fr *frame, fn *ssa.Function, args []value) value {
	in.bypass = fn
	defer func() { in.bypass = nil }()
	return in.callSSA(fr.caller, fr.callpos, fn, args, nil)
}

// ---------- misc: uuid, regexp, sort, rand, runtime, os ----------

func registerMisc() {
	I := intrinsics
	I["github.com/google/uuid.NewRandom"] = func(in *Interp, fr *frame, fn *ssa.Function, a []value) value {
		in.uuidSeq++
		u := make(array, 16)
		for i := range u {
			u[i] = in.tc.Const(8, 0)
		}
		u[6] = in.tc.Const(8, 0x40)
		u[8] = in.tc.Const(8, 0x80)
		u[15] = in.tc.Const(8, uint64(in.uuidSeq))
		u[14] = in.tc.Const(8, uint64(in.uuidSeq>>8))
		return tuple{u, iface{}}
	}
	I["github.com/cespare/xxhash/v2.Sum64"] = func(in *Interp, fr *frame, fn *ssa.Function, a []value) value {
		bs := a[0].([]value)
		b := make([]byte, len(bs))
		for i, x := range bs {
			t := x.(*Term)
			if !t.IsConst() {
				panic(engineErr("xxhash.Sum64 of symbolic bytes"))
			}
			b[i] = byte(t.c)
		}
		return in.tc.Const(64, xxhash.Sum64(b))
	}
	I["github.com/cespare/xxhash/v2.Sum64String"] = func(in *Interp, fr *frame, fn *ssa.Function, a []value) value {
		return in.tc.Const(64, xxhash.Sum64String(in.mustStr(a[0], "xxhash.Sum64String")))
	}
	// math on concrete floats
	f1 := func(name string, f func(float64) float64) {
		I["math."+name] = func(in *Interp, fr *frame, fn *ssa.Function, a []value) value {
			x := a[0].(Float)
			return Float{v: f(x.v), opaque: x.opaque}
		}
	}
	f1("Log", math.Log)
	f1("Log10", math.Log10)
	f1("Log2", math.Log2)
	f1("Exp", math.Exp)
	f1("Sqrt", math.Sqrt)
	f1("Floor", math.Floor)
	f1("Ceil", math.Ceil)
	f1("Trunc", math.Trunc)
	f1("Round", math.Round)
	f1("Abs", math.Abs)
	I["math.Pow"] = func(in *Interp, fr *frame, fn *ssa.Function, a []value) value {
		x, y := a[0].(Float), a[1].(Float)
		return Float{v: math.Pow(x.v, y.v), opaque: x.opaque || y.opaque}
	}
	I["math.Mod"] = func(in *Interp, fr *frame, fn *ssa.Function, a []value) value {
		x, y := a[0].(Float), a[1].(Float)
		return Float{v: math.Mod(x.v, y.v), opaque: x.opaque || y.opaque}
	}
	I["math.Inf"] = func(in *Interp, fr *frame, fn *ssa.Function, a []value) value {
		s, _ := cint(a[0])
		return Float{v: math.Inf(int(s))}
	}
	I["math.NaN"] = func(in *Interp, fr *frame, fn *ssa.Function, a []value) value { return Float{v: math.NaN()} }
	I["math.IsNaN"] = func(in *Interp, fr *frame, fn *ssa.Function, a []value) value {
		return in.tc.Bool(math.IsNaN(a[0].(Float).v))
	}
	I["math.IsInf"] = func(in *Interp, fr *frame, fn *ssa.Function, a []value) value {
		s, _ := cint(a[1])
		return in.tc.Bool(math.IsInf(a[0].(Float).v, int(s)))
	}
	I["math.Float64bits"] = func(in *Interp, fr *frame, fn *ssa.Function, a []value) value {
		x := a[0].(Float)
		if x.opaque {
			return in.tc.Fresh("fbits", 64)
		}
		return in.tc.Const(64, math.Float64bits(x.v))
	}
	I["math.Float64frombits"] = func(in *Interp, fr *frame, fn *ssa.Function, a []value) value {
		t := a[0].(*Term)
		if !t.IsConst() {
			return Float{opaque: true}
		}
		return Float{v: math.Float64frombits(t.c)}
	}
	// back-off ticker: a channel that ticks whenever the scheduler picks it
	I["github.com/cenkalti/backoff/v5.NewTicker"] = func(in *Interp, fr *frame, fn *ssa.Function, a []value) value {
		pt := fn.Signature.Results().At(0).Type()
		st := in.zero(deref(pt)).(structure)
		ch := in.newChan(0, nil)
		ch.always = func() value { return in.timeValue(in.clock) }
		st[0] = ch
		var cell value = st
		return &cell
	}
	I["(*github.com/cenkalti/backoff/v5.Ticker).Stop"] = func(in *Interp, fr *frame, fn *ssa.Function, a []value) value {
		st := (*(a[0].(*value))).(structure)
		if ch, ok := st[0].(*Chan); ok && ch != nil {
			ch.always = nil
			ch.closed = true
		}
		return nil
	}
	// hashes: native on concrete bytes
	I["crypto/sha256.New"] = func(in *Interp, fr *frame, fn *ssa.Function, a []value) value {
		t := fn.Signature.Results().At(0).Type()
		return iface{t: t, v: &EngHash{h: sha256.New()}}
	}
	I["crypto/md5.Sum"] = func(in *Interp, fr *frame, fn *ssa.Function, a []value) value {
		sum := md5.Sum(in.concreteBytes(a[0], "md5.Sum"))
		out := make(array, len(sum))
		for i, b := range sum {
			out[i] = in.tc.Const(8, uint64(b))
		}
		return out
	}
	I["crypto/sha256.Sum256"] = func(in *Interp, fr *frame, fn *ssa.Function, a []value) value {
		sum := sha256.Sum256(in.concreteBytes(a[0], "sha256.Sum256"))
		out := make(array, len(sum))
		for i, b := range sum {
			out[i] = in.tc.Const(8, uint64(b))
		}
		return out
	}
	I["math/rand.Int63"] = func(in *Interp, fr *frame, fn *ssa.Function, a []value) value {
		in.uuidSeq++
		return in.i64(int64(0x1000 + in.uuidSeq))
	}
	I["math/rand/v2.Int64"] = I["math/rand.Int63"]
	I["runtime.GOMAXPROCS"] = func(in *Interp, fr *frame, fn *ssa.Function, a []value) value {
		if v, ok := in.side["GOMAXPROCS"].(*Term); ok {
			return v
		}
		return in.i64(4)
	}
	I["runtime.Gosched"] = func(in *Interp, fr *frame, fn *ssa.Function, a []value) value {
		in.yield("Gosched")
		return nil
	}
	I["runtime.KeepAlive"] = func(in *Interp, fr *frame, fn *ssa.Function, a []value) value { return nil }
	I["os.Getenv"] = func(in *Interp, fr *frame, fn *ssa.Function, a []value) value { return "" }

	// Prometheus counter vectors: still no-ops, but a vector has an identity and hands out
	// the same child for the same label values, so that harnesses can read how often a
	// counter was incremented (vfCounter)
	const promP = "github.com/prometheus/client_golang/prometheus"
	newVec := func(in *Interp, fr *frame, fn *ssa.Function, a []value) value {
		p := new(value)
		*p = &Opaque{name: "CounterVec"}
		return p
	}
	I[promP+".NewCounterVec"] = newVec
	I["("+promP+"/promauto.Factory).NewCounterVec"] = newVec
	I["(*"+promP+".CounterVec).WithLabelValues"] = func(in *Interp, fr *frame, fn *ssa.Function, a []value) value {
		mkChild := func() value {
			return in.noopResults(fn.Signature, a, "CounterVec.WithLabelValues")
		}
		p, ok := a[0].(*value)
		if !ok || p == nil {
			return mkChild()
		}
		o, ok := (*p).(*Opaque)
		if !ok {
			return mkChild()
		}
		key := ""
		if len(a) > 1 {
			if vs, ok := a[1].([]value); ok {
				for _, v := range vs {
					if str, ok := concreteStr(v); ok {
						key += str + "\x00"
					} else {
						key += "?\x00"
					}
				}
			}
		}
		if o.children == nil {
			o.children = map[string]value{}
		}
		if c, ok := o.children[key]; ok {
			return c
		}
		c := mkChild()
		o.children[key] = c
		return c
	}

	// regexp: native, concrete only
	I["regexp.Compile"] = func(in *Interp, fr *frame, fn *ssa.Function, a []value) value {
		if _, ok := concreteStr(a[0]); !ok {
			// symbolic pattern: the regexp engine is not interpreted; it either accepts
			// or rejects the pattern (fresh choice), matching with it is unsupported
			key := "regexp:"
			for _, b := range a[0].(*SymStr).b {
				key += fmt.Sprintf("%x.%x,", b.h1, b.h2)
			}
			okT, seen := in.side[key].(*Term)
			if !seen {
				okT = in.tc.Fresh("regexp.ok", 0)
				in.side[key] = okT
			}
			if in.branch(okT, "regexp.Compile") {
				var cell value = &Opaque{name: "regexp(symbolic)", data: key}
				return tuple{&cell, iface{}}
			}
			return tuple{(*value)(nil), in.newErr("error parsing regexp")}
		}
		re, err := regexp.Compile(in.mustStr(a[0], "regexp.Compile"))
		if err != nil {
			return tuple{(*value)(nil), in.newErr(err.Error())}
		}
		var cell value = &Opaque{name: "regexp", data: re}
		return tuple{&cell, iface{}}
	}
	I["regexp.MustCompile"] = func(in *Interp, fr *frame, fn *ssa.Function, a []value) value {
		re := regexp.MustCompile(in.mustStr(a[0], "regexp.MustCompile"))
		var cell value = &Opaque{name: "regexp", data: re}
		return &cell
	}
	reOf := func(v value) *regexp.Regexp {
		p, ok := v.(*value)
		if !ok || p == nil {
			panic(engineErr("regexp method on %s", show(v)))
		}
		return (*p).(*Opaque).data.(*regexp.Regexp)
	}
	I["(*regexp.Regexp).MatchString"] = func(in *Interp, fr *frame, fn *ssa.Function, a []value) value {
		loc, _ := in.rxFind(reOf(a[0]), a[1])
		return in.tc.Bool(loc != nil)
	}
	I["(*regexp.Regexp).String"] = func(in *Interp, fr *frame, fn *ssa.Function, a []value) value {
		return reOf(a[0]).String()
	}
	I["(*regexp.Regexp).FindStringSubmatch"] = func(in *Interp, fr *frame, fn *ssa.Function, a []value) value {
		loc, s := in.rxFind(reOf(a[0]), a[1])
		if loc == nil {
			return []value(nil)
		}
		out := make([]value, len(loc)/2)
		for i := range out {
			if loc[2*i] < 0 {
				out[i] = ""
				continue
			}
			sub := &SymStr{b: s.b[loc[2*i]:loc[2*i+1]:loc[2*i+1]]}
			if str, ok := symStrConcrete(sub); ok {
				out[i] = str
			} else {
				out[i] = sub
			}
		}
		return out
	}
	I["(*regexp.Regexp).FindStringSubmatchIndex"] = func(in *Interp, fr *frame, fn *ssa.Function, a []value) value {
		loc, _ := in.rxFind(reOf(a[0]), a[1])
		if loc == nil {
			return []value(nil)
		}
		out := make([]value, len(loc))
		for i, s := range loc {
			out[i] = in.i64(int64(s))
		}
		return out
	}
	I["regexp.QuoteMeta"] = func(in *Interp, fr *frame, fn *ssa.Function, a []value) value {
		return regexp.QuoteMeta(in.mustStr(a[0], "regexp.QuoteMeta"))
	}

	// sort.Slice / sort.SliceStable: stable insertion sort through the less closure
	sortSlice := func(in *Interp, fr *frame, fn *ssa.Function, a []value) value {
		s := a[0].(iface).v.([]value)
		less := a[1]
		for i := 1; i < len(s); i++ {
			for j := i; j > 0; j-- {
				r := in.callValue(less, in.i64(int64(j)), in.i64(int64(j-1))).(*Term)
				if !in.branch(r, "sort.Slice") {
					break
				}
				s[j], s[j-1] = s[j-1], s[j]
			}
		}
		return nil
	}
	I["sort.Slice"] = sortSlice
	I["sort.SliceStable"] = sortSlice
	I["sort.Strings"] = func(in *Interp, fr *frame, fn *ssa.Function, a []value) value {
		s := a[0].([]value)
		strs := make([]string, len(s))
		for i, v := range s {
			strs[i] = in.mustStr(v, "sort.Strings")
		}
		sort.Strings(strs)
		for i := range s {
			s[i] = strs[i]
		}
		return nil
	}
}

var _ = token.NoPos

// EngHash wraps a native hash.Hash fed with concrete bytes.
type EngHash struct{ h hash.Hash }

func (in *Interp) concreteBytes(v value, what string) []byte {
	bs, ok := v.([]value)
	if !ok {
		panic(engineErr("%s: not a byte slice", what))
	}
	out := make([]byte, len(bs))
	for i, x := range bs {
		t, ok := x.(*Term)
		if !ok || !t.IsConst() {
			panic(engineErr("%s of symbolic bytes", what))
		}
		out[i] = byte(t.c)
	}
	return out
}

func hashMethod(e *EngHash, meth *types.Func) value {
	switch meth.Name() {
	case "Write":
		return &NativeFunc{name: "hash.Write", fn: func(in *Interp, a []value) value {
			b := in.concreteBytes(a[1], "hash.Write")
			e.h.Write(b)
			return tuple{in.i64(int64(len(b))), iface{}}
		}}
	case "Sum":
		return &NativeFunc{name: "hash.Sum", fn: func(in *Interp, a []value) value {
			var pre []byte
			if a[1] != nil {
				if bs, ok := a[1].([]value); ok && bs != nil {
					pre = in.concreteBytes(bs, "hash.Sum")
				}
			}
			sum := e.h.Sum(pre)
			out := make([]value, len(sum))
			for i, b := range sum {
				out[i] = in.tc.Const(8, uint64(b))
			}
			return out
		}}
	case "Reset":
		return &NativeFunc{name: "hash.Reset", fn: func(in *Interp, a []value) value { e.h.Reset(); return nil }}
	case "Size":
		return &NativeFunc{name: "hash.Size", fn: func(in *Interp, a []value) value { return in.i64(int64(e.h.Size())) }}
	case "BlockSize":
		return &NativeFunc{name: "hash.BlockSize", fn: func(in *Interp, a []value) value { return in.i64(int64(e.h.BlockSize())) }}
	}
	panic(engineErr("hash method %s not modelled", meth.Name()))
}

// sprintfSym formats with %s / %v / %d / %q-free formats when some string argument
// is symbolic, producing a SymStr by concatenation. Returns ok=false if not needed
// or not expressible.
func (in *Interp) sprintfSym(format string, args []value) (value, bool) {
	anySym := false
	for _, v := range args {
		if i, ok := v.(iface); ok {
			if ss, ok := i.v.(*SymStr); ok {
				if _, c := concreteStr(ss); !c {
					anySym = true
				}
			}
		}
	}
	if !anySym {
		return nil, false
	}
	out := &SymStr{}
	k := 0
	for i := 0; i < len(format); i++ {
		ch := format[i]
		if ch != '%' {
			out.b = append(out.b, in.tc.Const(8, uint64(ch)))
			continue
		}
		i++
		if i >= len(format) {
			return nil, false
		}
		switch format[i] {
		case '%':
			out.b = append(out.b, in.tc.Const(8, '%'))
		case 's', 'v', 'd':
			if k >= len(args) {
				return nil, false
			}
			v := args[k]
			k++
			iv, ok := v.(iface)
			if !ok {
				return nil, false
			}
			if ss, ok := iv.v.(*SymStr); ok && !in.hasMethod(iv.t, "String") {
				out.b = append(out.b, ss.b...)
				continue
			}
			x := in.fmtArg(v, true)
			for _, c := range []byte(fmt.Sprintf("%"+string(format[i]), x)) {
				out.b = append(out.b, in.tc.Const(8, uint64(c)))
			}
		default:
			return nil, false
		}
	}
	return out, true
}

// deepEqual is reflect.DeepEqual on engine values (pointers are followed).
func (in *Interp) deepEqual(x, y value, depth int) *Term {
	tc := in.tc
	if depth > 40 {
		panic(engineErr("reflect.DeepEqual: too deep (cyclic?)"))
	}
	switch x := x.(type) {
	case iface:
		yi, ok := y.(iface)
		if !ok {
			return tc.False()
		}
		if x.t == nil || yi.t == nil {
			return tc.Bool(x.t == nil && yi.t == nil)
		}
		if !types.Identical(x.t, yi.t) {
			return tc.False()
		}
		return in.deepEqual(x.v, yi.v, depth+1)
	case *value:
		yp, ok := y.(*value)
		if !ok {
			return tc.False()
		}
		if x == nil || yp == nil {
			return tc.Bool(x == nil && yp == nil)
		}
		if x == yp {
			return tc.True()
		}
		return in.deepEqual(*x, *yp, depth+1)
	case *Opaque:
		yo, ok := y.(*Opaque)
		if !ok {
			return tc.False()
		}
		if x == yo {
			return tc.True()
		}
		if rx, ok := x.data.(*regexp.Regexp); ok {
			if ry, ok := yo.data.(*regexp.Regexp); ok {
				return tc.Bool(rx.String() == ry.String())
			}
			return tc.False()
		}
		if kx, ok := x.data.(string); ok {
			ky, _ := yo.data.(string)
			return tc.Bool(kx == ky)
		}
		return tc.False()
	case structure:
		ys := y.(structure)
		var cs []*Term
		for i := range x {
			cs = append(cs, in.deepEqual(x[i], ys[i], depth+1))
		}
		return tc.And(cs...)
	case array:
		ya := y.(array)
		var cs []*Term
		for i := range x {
			cs = append(cs, in.deepEqual(x[i], ya[i], depth+1))
		}
		return tc.And(cs...)
	case []value:
		ys := y.([]value)
		if (x == nil) != (ys == nil) || len(x) != len(ys) {
			return tc.False()
		}
		var cs []*Term
		for i := range x {
			cs = append(cs, in.deepEqual(x[i], ys[i], depth+1))
		}
		return tc.And(cs...)
	case *Map:
		ym := y.(*Map)
		if (x == nil) != (ym == nil) || x.Len() != ym.Len() {
			return tc.False()
		}
		var cs []*Term
		if x != nil {
			for _, e := range x.entries {
				if e.deleted {
					continue
				}
				o := in.mapFind(ym, e.key, "reflect.DeepEqual")
				if o == nil {
					return tc.False()
				}
				cs = append(cs, in.deepEqual(e.val, o.val, depth+1))
			}
		}
		return tc.And(cs...)
	case *ssa.Function, *closure, *NativeFunc:
		return tc.Bool(isNilFunc(x) && isNilFunc(y))
	}
	return in.equals(nil, x, y)
}
