package main

// One persistent SMT solver process per worker, driven over stdin/stdout with an
// assertion stack that mirrors the path condition.

import (
	"bufio"
	"fmt"
	"io"
	"os/exec"
	"strconv"
	"strings"
	"time"
)

type SatResult int

const (
	Unsat SatResult = iota
	Sat
	Unknown
)

func (r SatResult) String() string { return [...]string{"unsat", "sat", "unknown"}[r] }

type Solver struct {
	intMode  bool // integer (bv-as-int) encoding
	fresh    bool // every query is self-contained (no incremental stack)
	freshPC  []*Term
	kind     string // z3, z3-new, cvc5
	cmd      *exec.Cmd
	in       io.WriteCloser
	out      *bufio.Reader
	levels   []solverLevel // one per pushed scope
	defined  map[[2]uint64]int
	declared map[string]int
	base     solverLevel
	// stats
	Queries   int
	Time      time.Duration
	Errors    int
	log       io.Writer
	timeoutMs int
}

type solverLevel struct {
	conj  *Term // permanent conjunct asserted at this level (nil for scratch)
	defs  [][2]uint64
	decls []string
}

func solverArgv(kind string, timeoutMs int) []string {
	switch kind {
	case "z3":
		return []string{"/usr/bin/z3", "-in", "-smt2", fmt.Sprintf("-t:%d", timeoutMs)}
	case "z3-new":
		return []string{"z3-new", "-in", "-smt2", fmt.Sprintf("-t:%d", timeoutMs)}
	case "cvc5":
		return []string{"cvc5", "--incremental", "--lang=smt2", "--produce-models", fmt.Sprintf("--tlimit-per=%d", timeoutMs)}
	}
	panic("unknown solver " + kind)
}

func NewSolver(kind string, timeoutMs int) (*Solver, error) {
	argv := solverArgv(kind, timeoutMs)
	cmd := exec.Command(argv[0], argv[1:]...)
	in, err := cmd.StdinPipe()
	if err != nil {
		return nil, err
	}
	outp, err := cmd.StdoutPipe()
	if err != nil {
		return nil, err
	}
	cmd.Stderr = cmd.Stdout
	if err := cmd.Start(); err != nil {
		return nil, err
	}
	s := &Solver{kind: kind, cmd: cmd, in: in, out: bufio.NewReaderSize(outp, 1<<16),
		defined: map[[2]uint64]int{}, declared: map[string]int{}, timeoutMs: timeoutMs}
	if kind == "cvc5" {
		s.send("(set-logic ALL)")
	}
	s.send("(set-option :produce-models true)")
	return s, nil
}

func (s *Solver) Close() {
	if s == nil || s.cmd == nil {
		return
	}
	s.in.Close()
	s.cmd.Process.Kill()
	s.cmd.Wait()
}

func (s *Solver) send(line string) {
	if s.log != nil {
		fmt.Fprintln(s.log, line)
	}
	io.WriteString(s.in, line)
	io.WriteString(s.in, "\n")
}

func (s *Solver) readLine() string {
	line, err := s.out.ReadString('\n')
	if err != nil {
		panic(engineErr("solver %s died: %v", s.kind, err))
	}
	return strings.TrimSpace(line)
}

func (s *Solver) depth() int { return len(s.levels) }

func (s *Solver) push(conj *Term) {
	s.send("(push 1)")
	s.levels = append(s.levels, solverLevel{conj: conj})
}

func (s *Solver) pop() {
	n := len(s.levels)
	lv := s.levels[n-1]
	for _, d := range lv.defs {
		delete(s.defined, d)
	}
	for _, d := range lv.decls {
		delete(s.declared, d)
	}
	s.levels = s.levels[:n-1]
	s.send("(pop 1)")
}

// emit makes sure every sub-term of t is declared/defined in the current scope.
func (s *Solver) emit(t *Term) {
	switch t.op {
	case OpConst:
		return
	case OpVar:
		if _, ok := s.declared[t.name]; ok {
			return
		}
		if s.intMode && t.w > 0 {
			s.send(fmt.Sprintf("(declare-const %s Int)", smtName(t.name)))
			s.send(fmt.Sprintf("(assert (and (<= 0 %s) (<= %s %d)))", smtName(t.name), smtName(t.name), mask(t.w)))
		} else {
			s.send(fmt.Sprintf("(declare-const %s %s)", smtName(t.name), sortName(t.w)))
		}
		s.declared[t.name] = len(s.levels)
		if n := len(s.levels); n > 0 {
			s.levels[n-1].decls = append(s.levels[n-1].decls, t.name)
		}
		return
	}
	k := [2]uint64{t.h1, t.h2}
	if _, ok := s.defined[k]; ok {
		return
	}
	for _, a := range t.args {
		s.emit(a)
	}
	if s.intMode {
		srt := "Int"
		if t.w == 0 {
			srt = "Bool"
		}
		s.send(fmt.Sprintf("(define-fun %s () %s %s)", t.defName(), srt, t.intBody()))
	} else {
		s.send(fmt.Sprintf("(define-fun %s () %s %s)", t.defName(), sortName(t.w), t.body()))
	}
	s.defined[k] = len(s.levels)
	if n := len(s.levels); n > 0 {
		s.levels[n-1].defs = append(s.levels[n-1].defs, k)
	}
}

// Assert permanently (for this path) asserts t in a new scope.
func (s *Solver) Assert(t *Term) {
	s.push(t)
	s.emit(t)
	s.send("(assert " + t.ref2(s.intMode) + ")")
}

// SyncTo pops scopes until the permanent conjuncts form a prefix of pc, and
// returns how many conjuncts of pc are already asserted.
func (s *Solver) SyncTo(pc []*Term) int {
	n := 0
	for n < len(s.levels) && n < len(pc) && s.levels[n].conj != nil &&
		s.levels[n].conj.h1 == pc[n].h1 && s.levels[n].conj.h2 == pc[n].h2 {
		n++
	}
	for len(s.levels) > n {
		s.pop()
	}
	return n
}

// Check decides satisfiability of the asserted stack plus extra (scratch scope).
// If wantModel and the result is Sat, the values of vars are returned.
func (s *Solver) Check(extra []*Term, vars []*Term, wantModel bool) (SatResult, Model) {
	if s.fresh {
		return s.checkFresh(extra, vars, wantModel)
	}
	start := time.Now()
	defer func() {
		d := time.Since(start)
		s.Time += d
		s.Queries++
		liveSolverNs.Add(int64(d))
		liveQueries.Add(1)
	}()
	if len(extra) > 0 {
		s.push(nil)
		for _, e := range extra {
			s.emit(e)
			s.send("(assert " + e.ref2(s.intMode) + ")")
		}
		defer s.pop()
	}
	s.send("(check-sat)")
	res := s.readResult()
	if res != Sat || !wantModel {
		return res, nil
	}
	// declare any var not yet known (unconstrained) so get-value works
	var names []string
	for _, v := range vars {
		if _, ok := s.declared[v.name]; ok {
			names = append(names, smtName(v.name))
		}
	}
	m := Model{}
	if len(names) > 0 {
		s.send("(get-value (" + strings.Join(names, " ") + "))")
		txt := s.readSexp()
		if err := parseModel(txt, m); err != nil {
			s.Errors++
			return Unknown, nil
		}
	}
	return Sat, m
}

func (s *Solver) readResult() SatResult {
	for {
		line := s.readLine()
		switch {
		case line == "sat":
			return Sat
		case line == "unsat":
			return Unsat
		case line == "unknown" || line == "timeout":
			return Unknown
		case line == "" || line == "success":
			continue
		case strings.HasPrefix(line, "(error"):
			s.Errors++
			if s.log != nil {
				fmt.Fprintln(s.log, "; ERROR:", line)
			}
			// the check-sat answer still follows; consume it and report unknown
			for {
				l2 := s.readLine()
				if l2 == "sat" || l2 == "unsat" || l2 == "unknown" {
					return Unknown
				}
				if strings.HasPrefix(l2, "(error") {
					continue
				}
			}
		default:
			if s.log != nil {
				fmt.Fprintln(s.log, "; ???:", line)
			}
			s.Errors++
		}
	}
}

// readSexp reads one balanced s-expression (possibly spanning lines).
func (s *Solver) readSexp() string {
	var sb strings.Builder
	depth := 0
	started := false
	for {
		line := s.readLine()
		if strings.HasPrefix(line, "(error") {
			s.Errors++
			return ""
		}
		for _, r := range line {
			if r == '(' {
				depth++
				started = true
			} else if r == ')' {
				depth--
			}
		}
		sb.WriteString(line)
		sb.WriteString(" ")
		if started && depth <= 0 {
			return sb.String()
		}
	}
}

func parseModel(txt string, m Model) error {
	// ((name value) (name value) ...)
	toks := tokenize(txt)
	i := 0
	if len(toks) == 0 || toks[0] != "(" {
		return fmt.Errorf("bad model %q", txt)
	}
	i++
	for i < len(toks) && toks[i] == "(" {
		i++
		name := toks[i]
		i++
		if strings.HasPrefix(name, "|") {
			name = strings.Trim(name, "|")
		}
		var val uint64
		switch {
		case toks[i] == "true":
			val = 1
			i++
		case toks[i] == "false":
			val = 0
			i++
		case toks[i][0] >= '0' && toks[i][0] <= '9':
			v, err := strconv.ParseUint(toks[i], 10, 64)
			if err != nil {
				return err
			}
			val = v
			i++
		case toks[i] == "(" && toks[i+1] == "-":
			v, err := strconv.ParseUint(toks[i+2], 10, 64)
			if err != nil {
				return err
			}
			val = -v
			i += 4
		case strings.HasPrefix(toks[i], "#x"):
			v, err := strconv.ParseUint(toks[i][2:], 16, 64)
			if err != nil {
				return err
			}
			val = v
			i++
		case strings.HasPrefix(toks[i], "#b"):
			v, err := strconv.ParseUint(toks[i][2:], 2, 64)
			if err != nil {
				return err
			}
			val = v
			i++
		case toks[i] == "(" && toks[i+1] == "_" && strings.HasPrefix(toks[i+2], "bv"):
			v, err := strconv.ParseUint(toks[i+2][2:], 10, 64)
			if err != nil {
				return err
			}
			val = v
			i += 5
		default:
			return fmt.Errorf("bad model value %q", toks[i])
		}
		if toks[i] != ")" {
			return fmt.Errorf("bad model near %q", toks[i])
		}
		i++
		m[name] = val
	}
	return nil
}

func tokenize(s string) []string {
	var toks []string
	i := 0
	for i < len(s) {
		c := s[i]
		switch {
		case c == ' ' || c == '\t' || c == '\n' || c == '\r':
			i++
		case c == '(' || c == ')':
			toks = append(toks, string(c))
			i++
		case c == '|':
			j := strings.IndexByte(s[i+1:], '|')
			toks = append(toks, s[i:i+j+2])
			i += j + 2
		default:
			j := i
			for j < len(s) && !strings.ContainsRune(" \t\n\r()", rune(s[j])) {
				j++
			}
			toks = append(toks, s[i:j])
			i = j
		}
	}
	return toks
}

// checkFresh solves pc ∧ extra from scratch (no incremental state).
func (s *Solver) checkFresh(extra []*Term, vars []*Term, wantModel bool) (SatResult, Model) {
	start := time.Now()
	defer func() {
		d := time.Since(start)
		s.Time += d
		s.Queries++
		liveSolverNs.Add(int64(d))
		liveQueries.Add(1)
	}()
	s.send("(reset)")
	s.send("(set-option :produce-models true)")
	s.defined = map[[2]uint64]int{}
	s.declared = map[string]int{}
	s.levels = s.levels[:0]
	for _, c := range s.freshPC {
		s.emit(c)
		s.send("(assert " + c.ref2(s.intMode) + ")")
	}
	for _, e := range extra {
		s.emit(e)
		s.send("(assert " + e.ref2(s.intMode) + ")")
	}
	s.send("(check-sat)")
	res := s.readResult()
	if res != Sat || !wantModel {
		return res, nil
	}
	var names []string
	for _, v := range vars {
		if _, ok := s.declared[v.name]; ok {
			names = append(names, smtName(v.name))
		}
	}
	m := Model{}
	if len(names) > 0 {
		s.send("(get-value (" + strings.Join(names, " ") + "))")
		txt := s.readSexp()
		if err := parseModel(txt, m); err != nil {
			s.Errors++
			return Unknown, nil
		}
	}
	return Sat, m
}
