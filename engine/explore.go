package main

// Path exploration: decisions, path condition, work queue, workers.

import (
	"fmt"
	"go/token"
	"go/types"
	"os"
	"regexp"
	"runtime"
	"sort"
	"strings"
	"sync"
	"sync/atomic"
	"time"

	"golang.org/x/tools/go/ssa"
)

type Cfg struct {
	RepoDir         string // root of the repository under test (for schedule traces)
	MaxSteps        int
	Unwind          int
	MaxDecisions    int
	MaxPaths        int
	PreemptBound    int // -1 = unbounded
	MaxGoroutines   int
	MaxTimerFires   int
	MapOrderReverse bool
	MapOrderIn      string // explore every iteration order of maps with 2..3 entries ranged over in functions whose name contains this
	SolverTimeoutMs int
	StopAfterViolations int // stop exploring a harness after this many violating paths (0 = never)
	SlowBudget      int  // slow=N: how often time may pass while a goroutine is runnable
	SchedFIFO       bool // sched=fifo: no scheduling decisions (run to block, then the oldest runnable goroutine)
	Workers         int
	SampleEvery     int
	Solver          string
	Arith           string            // "int" (default) or "bv"
	Stubs           map[string]string // repo function -> harness function replacing it (engine only)
}

func defaultCfg() Cfg {
	return Cfg{MaxSteps: 3_000_000, Unwind: 8, MaxDecisions: 400, MaxPaths: 200_000, PreemptBound: 1,
		MaxGoroutines: 8, MaxTimerFires: 64, SolverTimeoutMs: 30000, Workers: 8, Solver: "z3"}
}

var noopPkgRe = regexp.MustCompile(`^(log/slog|log|github\.com/prometheus/client_golang/.*|github\.com/prometheus/common/promslog|go\.opentelemetry\.io/.*|github\.com/prometheus/alertmanager/tracing|github\.com/prometheus/alertmanager/eventrecorder.*|runtime/debug|runtime/pprof|runtime/trace|expvar|os/signal|github\.com/prometheus/client_model/.*)$`)
var skipInitRe = regexp.MustCompile(`pb$|/pb/|^google\.golang\.org/protobuf|^reflect$|^fmt$|^runtime|^syscall$|^internal/|^net|^crypto|^encoding/|^gopkg\.in/yaml|^github\.com/go-openapi|^regexp|^math/rand|^testing|^html|^text/template|^github\.com/hashicorp|^github\.com/google/uuid$|^github\.com/cenkalti|^github\.com/oklog|^golang\.org/x/`)

func isNoopPkg(path string) bool { return noopPkgRe.MatchString(path) }

func (c *Cfg) skipInit(path string) bool {
	if path == "net/url" {
		return false // its escape table is a package-level variable
	}
	return isNoopPkg(path) || skipInitRe.MatchString(path)
}

type decision struct {
	n        int
	choice   int
	val      uint64
	kind     string
	label    string
	feas     uint64 // alternatives found satisfiable when first explored
	unk      uint64 // alternatives whose feasibility the solver could not decide
	replayed bool
}

type outcome int

const (
	outcomeOK outcome = iota
	outcomeInfeasible
	outcomeBound
	outcomeDeadlock
	outcomePanic
	outcomeEngineError
)

func (o outcome) String() string {
	return [...]string{"ok", "infeasible", "bound-exceeded", "deadlock", "panic", "engine-error"}[o]
}

type assertRec struct {
	Name    string
	Result  string // "holds", "violated", "unknown"
	Where   string
	Trivial bool
}

type observeRec struct {
	Name string
	Term value
	Val  string // evaluated under the path witness
}

type PathResult struct {
	Decisions []decision
	Outcome   outcome
	Msg       string
	Asserts   []assertRec
	Observes  []observeRec
	Reached   []string
	Witness   Model
	VarOrder  []string
	Sched     []string
	Ops       []opRec
	Steps     int
	Inputs    []inputRec
	Exports   []exportRec
	Violated  string
}

type exportRec struct {
	Name string
	Term *Term
	Val  uint64
}

type inputRec struct {
	Key  string // name#occurrence
	Kind string // int64, bool, choice, ...
	Term *Term
}

// Interp is the per-path interpreter state.
type Interp struct {
	prog *ssa.Program
	cfg  *Cfg
	w    *Worker
	tc   *TermCtx

	globals   map[*ssa.Global]*value
	initDone  map[*ssa.Package]bool
	initDepth int

	// path state
	prefix    []decision
	decisions []decision
	pc        []*Term
	model     Model
	altModels map[*Term]Model
	steps     int
	depth     int
	trace     bool
	res       *PathResult

	// scheduler
	gs          []*G
	curG        *G
	hostWG      sync.WaitGroup
	aborting    bool
	gfail       any
	mu          sync.Mutex
	preemptions int
	schedTrace  []string
	opTrace     []opRec
	slowUsed    int
	frameSerial int
	chanSeq     int

	// time
	clock      Instant
	timers     []*Timer
	timerSeq   int
	timerFires int

	// side tables for sync primitives etc.
	side map[any]any

	bypass     *ssa.Function
	initTarget *ssa.Function
	nameCount  map[string]int
	uuidSeq    int
	errSeq     int
	funcs      map[string]bool
}

var liveSolverNs, liveQueries atomic.Int64

type Worker struct {
	id     int
	ex     *Explorer
	solver *Solver
}

type workItem struct {
	prefix []decision
}

type Explorer struct {
	prog  *ssa.Program
	cfg   Cfg
	entry *ssa.Function
	name  string

	mu    sync.Mutex
	cond  *sync.Cond
	queue []workItem
	busy  int
	stop  bool

	// results
	Paths          int
	ByOutcome      map[outcome]int
	Violations     []*PathResult
	Problems       []*PathResult // bound exceeded, engine errors, unknown
	Samples        []*PathResult
	AssertStats    map[string]*assertStat
	ReachStats     map[string]int
	Funcs          map[string]bool
	Queries        int
	SolverTime     time.Duration
	UnknownQ       int
	StoppedEarly   bool // exploration ended after cfg.StopAfterViolations violating paths
	SecondOpinions int // queries re-asked to a second solver after a timeout
	Transitions    int
	MaxDecDepth    int
	Steps          int64
	started        time.Time
	sampleSeen     int
	tier           int
	initial        []decision
}

type assertStat struct {
	Holds, Violated, Unknown int
}

func NewExplorer(prog *ssa.Program, entry *ssa.Function, cfg Cfg) *Explorer {
	ex := &Explorer{prog: prog, cfg: cfg, entry: entry, name: entry.Name(),
		ByOutcome: map[outcome]int{}, AssertStats: map[string]*assertStat{}, ReachStats: map[string]int{}, Funcs: map[string]bool{}}
	ex.cond = sync.NewCond(&ex.mu)
	return ex
}

// RunPrefix explores only the path selected by a decision prefix (and what
// branches off after it, up to MaxPaths).
func (ex *Explorer) RunPrefix(prefix []decision) {
	ex.initial = prefix
	ex.Run()
}

func (ex *Explorer) Run() {
	ex.started = time.Now()
	ex.queue = []workItem{{prefix: ex.initial}}
	var wg sync.WaitGroup
	n := ex.cfg.Workers
	if n < 1 {
		n = 1
	}
	stopProgress := make(chan struct{})
	if os.Getenv("GOSMT_PROGRESS") != "" {
		go func() {
			t := time.NewTicker(10 * time.Second)
			defer t.Stop()
			for {
				select {
				case <-stopProgress:
					return
				case <-t.C:
					ex.mu.Lock()
					fmt.Fprintf(os.Stderr, "  [%s] %.0fs paths=%d queue=%d busy=%d violations=%d problems=%d maxdepth=%d steps=%d solver=%.1fs queries=%d\n", ex.name, time.Since(ex.started).Seconds(), ex.Paths, len(ex.queue), ex.busy, len(ex.Violations), len(ex.Problems), ex.MaxDecDepth, ex.Steps, time.Duration(liveSolverNs.Load()).Seconds(), liveQueries.Load())
					ex.mu.Unlock()
				}
			}
		}()
	}
	defer close(stopProgress)
	for i := 0; i < n; i++ {
		wg.Add(1)
		go func(id int) {
			defer wg.Done()
			w := &Worker{id: id, ex: ex}
			defer func() {
				if w.solver != nil {
					ex.mu.Lock()
					ex.Queries += w.solver.Queries
					ex.SolverTime += w.solver.Time
					ex.mu.Unlock()
					w.solver.Close()
				}
			}()
			w.loop()
		}(i)
	}
	wg.Wait()
}

func (w *Worker) loop() {
	ex := w.ex
	for {
		ex.mu.Lock()
		for len(ex.queue) == 0 && ex.busy > 0 && !ex.stop {
			ex.cond.Wait()
		}
		if ex.stop || len(ex.queue) == 0 {
			ex.mu.Unlock()
			ex.cond.Broadcast()
			return
		}
		it := ex.queue[len(ex.queue)-1]
		ex.queue = ex.queue[:len(ex.queue)-1]
		ex.busy++
		ex.mu.Unlock()

		res, funcs := w.runPath(it.prefix)

		ex.mu.Lock()
		ex.busy--
		ex.record(res, funcs)
		if ex.cfg.StopAfterViolations > 0 && len(ex.Violations) >= ex.cfg.StopAfterViolations && !ex.stop && (len(ex.queue) > 0 || ex.busy > 0) {
			// enough counterexamples to replay: the property is violated, the rest of the
			// path space would only cost time
			ex.stop = true
			ex.StoppedEarly = true
		}
		if ex.Paths >= ex.cfg.MaxPaths && !ex.stop && (len(ex.queue) > 0 || ex.busy > 0) {
			ex.stop = true
			ex.Problems = append(ex.Problems, &PathResult{Outcome: outcomeBound, Msg: fmt.Sprintf("path bound %d exceeded", ex.cfg.MaxPaths)})
		}
		ex.mu.Unlock()
		ex.cond.Broadcast()
	}
}

func (ex *Explorer) enqueue(prefix []decision) {
	cp := make([]decision, len(prefix))
	copy(cp, prefix)
	ex.mu.Lock()
	ex.queue = append(ex.queue, workItem{prefix: cp})
	ex.mu.Unlock()
	ex.cond.Signal()
}

func (ex *Explorer) record(r *PathResult, funcs map[string]bool) {
	ex.Paths++
	ex.ByOutcome[r.Outcome]++
	ex.Transitions += len(r.Decisions)
	ex.Steps += int64(r.Steps)
	if len(r.Decisions) > ex.MaxDecDepth {
		ex.MaxDecDepth = len(r.Decisions)
	}
	for f := range funcs {
		ex.Funcs[f] = true
	}
	viol := false
	unk := false
	for _, a := range r.Asserts {
		st := ex.AssertStats[a.Name]
		if st == nil {
			st = &assertStat{}
			ex.AssertStats[a.Name] = st
		}
		switch a.Result {
		case "holds":
			st.Holds++
		case "violated":
			st.Violated++
			viol = true
		default:
			st.Unknown++
			unk = true
		}
	}
	for _, t := range r.Reached {
		ex.ReachStats[t]++
	}
	switch r.Outcome {
	case outcomePanic, outcomeDeadlock:
		viol = true
	case outcomeBound, outcomeEngineError:
		ex.Problems = append(ex.Problems, r)
	}
	if unk {
		ex.Problems = append(ex.Problems, r)
	}
	if viol {
		if len(ex.Violations) < 200 {
			ex.Violations = append(ex.Violations, r)
		}
	} else if r.Outcome == outcomeOK {
		ex.sampleSeen++
		// reservoir-free deterministic sampling: keep the first few and then every k-th
		if len(ex.Samples) < 12 || (ex.cfg.SampleEvery > 0 && ex.sampleSeen%ex.cfg.SampleEvery == 0 && len(ex.Samples) < 400) {
			ex.Samples = append(ex.Samples, r)
		}
	}
}

// ---------- one path ----------

func (w *Worker) runPath(prefix []decision) (res *PathResult, funcs map[string]bool) {
	ex := w.ex
	in := &Interp{prog: ex.prog, cfg: &ex.cfg, w: w, tc: NewTermCtx(),
		globals: map[*ssa.Global]*value{}, initDone: map[*ssa.Package]bool{},
		prefix: prefix, altModels: map[*Term]Model{}, side: map[any]any{}, nameCount: map[string]int{},
		res: &PathResult{}}
	in.funcs = map[string]bool{}
	in.trace = os.Getenv("GOSMT_TRACE") != ""
	tc := in.tc
	in.clock = Instant{sec: tc.Const(64, clockEpochUnix+unixToInternal), nsec: tc.Const(64, 0)}
	g0 := &G{id: 0, name: "main", wake: make(chan struct{}, 1)}
	in.gs = []*G{g0}
	in.curG = g0
	res = in.res
	defer func() {
		r := recover()
		if in.gfail != nil && (r == nil || isAbort(r)) {
			r = in.gfail
		}
		in.killGoroutines()
		switch r := r.(type) {
		case nil:
			res.Outcome = outcomeOK
		case pathAbort:
			// outcome already recorded by abortPath
			if res.Msg == "" && r.reason == "deadlock" {
				res.Outcome, res.Msg = outcomeDeadlock, "all goroutines blocked: "+in.describeBlocked()
			}
		case targetPanic:
			res.Outcome = outcomePanic
			res.Msg = "panic: " + show(r.v) + " " + r.msg
		case errNotLIA:
			res.Outcome = outcomeEngineError
			res.Msg = "term not expressible in the integer encoding (" + r.what + "); the harness needs //vf:bounds arith=bv"
			// the solver's scope stack may be inconsistent now: restart it
			if w.solver != nil {
				w.solver.Close()
				w.solver = nil
			}
		case *EngineError:
			res.Outcome = outcomeEngineError
			res.Msg = r.msg
			if r.stack != "" {
				res.Msg += "\n" + r.stack
			}
		default:
			buf := make([]byte, 1<<14)
			n := runtime.Stack(buf, false)
			res.Outcome = outcomeEngineError
			res.Msg = fmt.Sprintf("host panic: %v\n%s", r, buf[:n])
		}
		res.Decisions = in.decisions
		res.Sched = in.schedTrace
		res.Ops = in.opTrace
		res.Steps = in.steps
		funcs = in.funcs
		if res.Witness == nil && (res.Outcome == outcomeOK || res.Outcome == outcomePanic || res.Outcome == outcomeDeadlock) {
			in.finishWitness()
		}
	}()
	var t iface = iface{}
	_ = t
	in.callSSA(nil, token.NoPos, ex.entry, nil, nil)
	return
}

func isAbort(r any) bool { _, ok := r.(pathAbort); return ok }

func (in *Interp) abortPath(o outcome, msg string) {
	if !in.aborting || in.res.Msg == "" {
		in.res.Outcome = o
		in.res.Msg = msg
	}
	panic(pathAbort{reason: o.String()})
}

func (in *Interp) noteFunc(fn *ssa.Function) {
	if fn.Pkg != nil && strings.HasPrefix(fn.Pkg.Pkg.Path(), "github.com/prometheus/alertmanager") {
		name := fn.String()
		if !strings.Contains(name, "Verif") && !strings.Contains(name, ".vf") {
			in.funcs[name] = true
		}
	}
}

// finishWitness computes a model of the whole path condition and evaluates the
// recorded observations under it.
func (in *Interp) finishWitness() {
	defer func() {
		if r := recover(); r != nil {
			in.res.Msg += fmt.Sprintf(" [witness failed: %v]", r)
		}
	}()
	in.flushAxioms()
	m := in.model
	if m == nil || !in.modelSatisfiesAll(m) {
		s := in.solverSynced()
		r, mm := s.Check(nil, in.tc.vars, true)
		if r != Sat {
			return
		}
		m = mm
	}
	in.completeModel(m)
	in.res.Witness = m
	for _, v := range in.tc.vars {
		in.res.VarOrder = append(in.res.VarOrder, v.name)
	}
	for i := range in.res.Observes {
		in.res.Observes[i].Val = in.evalShow(m, in.res.Observes[i].Term)
		in.res.Observes[i].Term = nil
	}
	for i := range in.res.Exports {
		in.res.Exports[i].Val = in.evalModel(m, in.res.Exports[i].Term)
		in.res.Exports[i].Term = nil
	}
}

func (in *Interp) modelSatisfiesAll(m Model) bool {
	for _, c := range in.pc {
		if in.evalModel(m, c) != 1 {
			return false
		}
	}
	return true
}

// completeModel fills in values for variables the solver did not report.
func (in *Interp) completeModel(m Model) {
	for _, v := range in.tc.vars {
		if _, ok := m[v.name]; !ok {
			m[v.name] = in.evalModel(m, v)
		}
	}
}

func (in *Interp) evalModel(m Model, t *Term) uint64 {
	return (&evaluator{m: m, tc: in.tc, memo: map[*Term]uint64{}}).eval(t)
}

func (in *Interp) evalShow(m Model, v value) string {
	switch v := v.(type) {
	case *Term:
		x := in.evalModel(m, v)
		if v.w == 0 {
			if x == 1 {
				return "true"
			}
			return "false"
		}
		return fmt.Sprint(x)
	case string:
		return fmt.Sprintf("%q", v)
	case *SymStr:
		b := make([]byte, len(v.b))
		for i, t := range v.b {
			b[i] = byte(in.evalModel(m, t))
		}
		return fmt.Sprintf("%q", string(b))
	case structure:
		var parts []string
		for _, f := range v {
			parts = append(parts, in.evalShow(m, f))
		}
		return "{" + strings.Join(parts, ",") + "}"
	case []value:
		var parts []string
		for _, f := range v {
			parts = append(parts, in.evalShow(m, f))
		}
		return "[" + strings.Join(parts, ",") + "]"
	case iface:
		if v.t == nil {
			return "nil"
		}
		return in.evalShow(m, v.v)
	case *value:
		if v == nil {
			return "nil"
		}
		return "&" + in.evalShow(m, *v)
	}
	return show(v)
}

type evaluator struct {
	m    Model
	tc   *TermCtx
	memo map[*Term]uint64
}

func (e *evaluator) eval(t *Term) uint64 {
	if t.op == OpVar {
		if v, ok := e.m[t.name]; ok {
			return v
		}
		if d, ok := e.tc.divDefs[t.name]; ok {
			a := e.eval(d.a)
			var q, r uint64
			if d.signed {
				x := signExt(a, d.a.w)
				q, r = uint64(x/int64(d.k)), uint64(x%int64(d.k))
			} else {
				q, r = a/d.k, a%d.k
			}
			v := q
			if d.isRem {
				v = r
			}
			v &= mask(t.w)
			e.m[t.name] = v
			return v
		}
		return 0
	}
	if t.op == OpConst {
		return t.c
	}
	if v, ok := e.memo[t]; ok {
		return v
	}
	// evaluate children first through this evaluator so defs are honoured
	sub := Model{}
	_ = sub
	v := evalNode(t, e.eval)
	e.memo[t] = v
	return v
}

// ---------- solver plumbing ----------

func (in *Interp) solverSynced() *Solver {
	w := in.w
	if w.solver == nil {
		s, err := NewSolver(in.cfg.Solver, in.cfg.SolverTimeoutMs)
		if err != nil {
			panic(engineErr("cannot start solver: %v", err))
		}
		if lf := os.Getenv("GOSMT_SMTLOG"); lf != "" {
			f, _ := os.Create(fmt.Sprintf("%s.%d", lf, w.id))
			s.log = f
		}
		s.intMode = in.cfg.Arith != "bv"
		s.fresh = os.Getenv("GOSMT_FRESH") != ""
		w.solver = s
	}
	s := w.solver
	if s.fresh {
		s.freshPC = in.pc
		return s
	}
	n := s.SyncTo(in.pc)
	for _, c := range in.pc[n:] {
		s.Assert(c)
	}
	return s
}

func (in *Interp) flushAxioms() {
	for len(in.tc.pendingAxioms) > 0 {
		ax := in.tc.pendingAxioms
		in.tc.pendingAxioms = nil
		for _, a := range ax {
			if a.IsConst() {
				if a.c == 0 {
					panic(engineErr("definitional axiom is false"))
				}
				continue
			}
			in.pc = append(in.pc, a)
		}
	}
}

func (in *Interp) addPC(c *Term) {
	if c.IsConst() {
		if c.c == 0 {
			in.abortPath(outcomeInfeasible, "constant-false constraint")
		}
		return
	}
	in.pc = append(in.pc, c)
	if in.model != nil && in.evalModel(in.model, c) != 1 {
		in.model = in.altModels[c]
	}
}

// feasibleR decides satisfiability of pc ∧ c.
func (in *Interp) feasibleR(c *Term) SatResult {
	if c.IsConst() {
		if c.c == 1 {
			return Sat
		}
		return Unsat
	}
	if in.model != nil && in.evalModel(in.model, c) == 1 {
		return Sat
	}
	s := in.solverSynced()
	r, m := s.Check([]*Term{c}, in.tc.vars, true)
	if r == Unknown {
		r, m = in.secondOpinion(c)
	}
	switch r {
	case Sat:
		in.altModels[c] = m
		if in.model == nil {
			in.model = m
		}
	case Unknown:
		in.w.ex.mu.Lock()
		in.w.ex.UnknownQ++
		in.w.ex.mu.Unlock()
	}
	return r
}

// secondOpinion re-asks a query the worker's solver could not decide within its time
// limit: a fresh process of the other z3 release, the whole path condition asserted
// from scratch, four times the time limit. Only if that is undecided too does the
// query count as unknown (and the check as inconclusive).
func (in *Interp) secondOpinion(c *Term) (SatResult, Model) {
	kind := "z3-new"
	if in.cfg.Solver == "z3-new" {
		kind = "z3"
	}
	s, err := NewSolver(kind, 4*in.cfg.SolverTimeoutMs)
	if err != nil {
		return Unknown, nil
	}
	defer s.Close()
	s.intMode = in.cfg.Arith != "bv"
	for _, p := range in.pc {
		s.Assert(p)
	}
	in.w.ex.mu.Lock()
	in.w.ex.SecondOpinions++
	in.w.ex.mu.Unlock()
	return s.Check([]*Term{c}, in.tc.vars, true)
}

func (in *Interp) feasible(c *Term) bool { return in.feasibleR(c) != Unsat }

// decide records an n-way decision. alts[i] is the constraint of alternative i.
func (in *Interp) decide(alts []*Term, kind string, labels []string) int {
	k, _ := in.decideFull(alts, kind, labels, 0, -1)
	return k
}

// decideFull: val is stored with the decision (for concretisations); noFollow (if
// >= 0) is an alternative that is never followed when its feasibility is unknown.
func (in *Interp) decideFull(alts []*Term, kind string, labels []string, val uint64, noFollowUnknown int) (int, decision) {
	in.flushAxioms()
	pos := len(in.decisions)
	if pos >= in.cfg.MaxDecisions {
		in.abortPath(outcomeBound, fmt.Sprintf("decision depth bound %d exceeded at %s", in.cfg.MaxDecisions, kind))
	}
	lab := func(k int) string {
		if labels != nil {
			return labels[k]
		}
		return fmt.Sprint(k)
	}
	if pos < len(in.prefix) {
		d := in.prefix[pos]
		if d.n != len(alts) || d.kind != kind {
			panic(engineErr("non-deterministic replay: decision %d was %s/%d, now %s/%d", pos, d.kind, d.n, kind, len(alts)))
		}
		d.replayed = true
		in.decisions = append(in.decisions, d)
		in.addPC(alts[d.choice])
		return d.choice, d
	}
	var feas []int
	var feasMask, unkMask uint64
	for i, a := range alts {
		switch in.feasibleR(a) {
		case Sat:
			feas = append(feas, i)
			feasMask |= 1 << uint(i)
		case Unknown:
			unkMask |= 1 << uint(i)
			if i != noFollowUnknown {
				feas = append(feas, i)
			}
		}
	}
	if len(feas) == 0 {
		in.abortPath(outcomeInfeasible, "no feasible alternative at "+kind)
	}
	for _, i := range feas[1:] {
		p := append(append([]decision{}, in.decisions...), decision{n: len(alts), choice: i, kind: kind, val: val, label: lab(i), feas: feasMask, unk: unkMask})
		in.w.ex.enqueue(p)
	}
	k := feas[0]
	d := decision{n: len(alts), choice: k, kind: kind, val: val, label: lab(k), feas: feasMask, unk: unkMask}
	in.decisions = append(in.decisions, d)
	in.addPC(alts[k])
	return k, d
}

func (in *Interp) branch(cond *Term, where string) bool {
	if cond.IsConst() {
		return cond.c == 1
	}
	return in.decide([]*Term{cond, in.tc.Not(cond)}, "br@"+where, []string{"T", "F"}) == 0
}

// chooseIndex forks over the in-range values of a symbolic index.
func (in *Interp) chooseIndex(idx *Term, idxT types.Type, n int, where string) (int, bool) {
	tc := in.tc
	alts := make([]*Term, 0, n+1)
	for i := 0; i < n; i++ {
		alts = append(alts, tc.Eq(idx, tc.Const(idx.w, uint64(i))))
	}
	alts = append(alts, tc.Not(tc.Ult(idx, tc.Const(idx.w, uint64(n)))))
	k := in.decide(alts, "idx@"+where, nil)
	if k == n {
		return -1, false
	}
	return k, true
}

// concreteInt forces a term to a concrete value, enumerating feasible values.
func (in *Interp) concreteInt(t *Term, signed bool, what string) int64 {
	for {
		if t.IsConst() {
			if signed {
				return signExt(t.c, t.w)
			}
			return int64(t.c)
		}
		in.flushAxioms()
		pos := len(in.decisions)
		var v uint64
		if pos < len(in.prefix) {
			v = in.prefix[pos].val
		} else {
			if in.model == nil || !in.modelSatisfiesAll(in.model) {
				s := in.solverSynced()
				r, m := s.Check(nil, in.tc.vars, true)
				if r != Sat {
					in.abortPath(outcomeInfeasible, "path condition not satisfiable at concretisation of "+what)
				}
				in.model = m
			}
			v = in.evalModel(in.model, t)
		}
		c := in.tc.Const(t.w, v)
		eq := in.tc.Eq(t, c)
		k, _ := in.decideFull([]*Term{eq, in.tc.Not(eq)}, "conc@"+what, []string{fmt.Sprintf("=%d", v), fmt.Sprintf("!=%d", v)}, v, -1)
		if k == 0 {
			if signed {
				return signExt(v, t.w)
			}
			return int64(v)
		}
	}
}

// ---------- assume / assert ----------

func (in *Interp) assume(c *Term) {
	if c.IsConst() {
		if c.c == 0 {
			in.abortPath(outcomeInfeasible, "assumption false")
		}
		return
	}
	in.flushAxioms()
	if len(in.decisions) >= len(in.prefix) {
		if in.feasibleR(c) == Unsat {
			in.abortPath(outcomeInfeasible, "assumption infeasible")
		}
	}
	in.addPC(c)
}

// assert is a two-way decision: the alternative "not c" ends the path as a
// violation; if it is infeasible the assertion holds on this path for all inputs.
func (in *Interp) assert(name string, c *Term, where string) {
	if c.IsConst() && c.c == 1 {
		in.res.Asserts = append(in.res.Asserts, assertRec{Name: name, Where: where, Result: "holds", Trivial: true})
		return
	}
	k, d := in.decideFull([]*Term{c, in.tc.Not(c)}, "assert:"+name, []string{"ok", "VIOLATED"}, 0, 1)
	if k == 1 {
		in.res.Asserts = append(in.res.Asserts, assertRec{Name: name, Where: where, Result: "violated"})
		in.res.Outcome = outcomeOK
		in.res.Msg = "assertion violated: " + name + " at " + where
		in.res.Violated = name
		in.finishWitness()
		panic(pathAbort{reason: "violation"})
	}
	if d.replayed {
		return // already accounted for by the path that first explored it
	}
	switch {
	case d.unk&2 != 0:
		in.res.Asserts = append(in.res.Asserts, assertRec{Name: name, Where: where, Result: "unknown"})
	case d.feas&2 != 0:
		// the violating continuation was queued as its own path
	default:
		in.res.Asserts = append(in.res.Asserts, assertRec{Name: name, Where: where, Result: "holds"})
	}
}

func sortedKeys[V any](m map[string]V) []string {
	ks := make([]string, 0, len(m))
	for k := range m {
		ks = append(ks, k)
	}
	sort.Strings(ks)
	return ks
}
