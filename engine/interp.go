package main

// The SSA interpreter proper: frames, instruction dispatch, calls, defers/panics.

import (
	"fmt"
	"go/constant"
	"go/token"
	"go/types"
	"runtime"
	"slices"
	"strings"

	"golang.org/x/tools/go/ssa"
)

// EngineError = the machinery cannot continue (unsupported construct, bad stub).
type EngineError struct {
	msg   string
	stack string
}

func (e *EngineError) Error() string { return e.msg }

func engineErr(format string, args ...any) *EngineError {
	return &EngineError{msg: fmt.Sprintf(format, args...)}
}

// targetPanic = the program under test panicked.
type targetPanic struct {
	v   value
	msg string
}

// pathAbort unwinds a host goroutine when the path ends early.
type pathAbort struct{ reason string }

type deferred struct {
	fn    value
	args  []value
	instr *ssa.Defer
	tail  *deferred
}

type frame struct {
	in               *Interp
	g                *G
	caller           *frame
	fn               *ssa.Function
	block, prevBlock *ssa.BasicBlock
	env              map[ssa.Value]value
	locals           []value
	defers           *deferred
	result           value
	panicking        bool
	panic            any
	symDecisions     map[ssa.Instruction]int
	callpos          token.Pos
	cur              ssa.Instruction // instruction being executed (for schedule traces)
	serial           int             // activation number (for schedule traces)
	icount           int             // instructions executed in this activation
}

func (fr *frame) get(key ssa.Value) value {
	switch key := key.(type) {
	case nil:
		return nil
	case *ssa.Function:
		return key
	case *ssa.Builtin:
		return key
	case *ssa.Const:
		return fr.in.constValue(key)
	case *ssa.Global:
		return fr.in.globalAddr(key)
	}
	if r, ok := fr.env[key]; ok {
		return r
	}
	panic(engineErr("get: no value for %T: %v in %s", key, key.Name(), fr.fn))
}

func (in *Interp) constValue(c *ssa.Const) value {
	if c.Value == nil {
		return in.zero(c.Type())
	}
	if t, ok := under(c.Type()).(*types.Basic); ok {
		if w, _, ok := intWidth(t); ok {
			if w == 0 {
				return in.tc.Bool(constant.BoolVal(c.Value))
			}
			if v, exact := constant.Uint64Val(constant.ToInt(c.Value)); exact {
				return in.tc.Const(w, v)
			}
			v, _ := constant.Int64Val(constant.ToInt(c.Value))
			return in.tc.Const(w, uint64(v))
		}
		switch {
		case t.Info()&types.IsFloat != 0:
			return Float{v: c.Float64()}
		case t.Info()&types.IsString != 0:
			if c.Value.Kind() == constant.String {
				return constant.StringVal(c.Value)
			}
			return string(rune(c.Int64()))
		}
	}
	panic(engineErr("constValue: %s", c))
}

func (in *Interp) where(fr *frame, pos token.Pos) string {
	var sb strings.Builder
	for f := fr; f != nil; f = f.caller {
		fmt.Fprintf(&sb, "\n    in %s", f.fn)
		if pos != token.NoPos {
			fmt.Fprintf(&sb, " at %s", in.prog.Fset.Position(pos))
		}
		pos = f.callpos
	}
	return sb.String()
}

// ---------- globals and lazy package initialisation ----------

func (in *Interp) globalAddr(g *ssa.Global) *value {
	if p, ok := in.globals[g]; ok {
		return p
	}
	in.ensureInit(g.Pkg)
	if p, ok := in.globals[g]; ok {
		return p
	}
	cell := in.zero(deref(g.Type()))
	p := &cell
	in.globals[g] = p
	return p
}

func (in *Interp) ensureInit(pkg *ssa.Package) {
	if pkg == nil || in.initDone[pkg] {
		return
	}
	in.initDone[pkg] = true
	// allocate all globals first
	for _, m := range pkg.Members {
		if g, ok := m.(*ssa.Global); ok {
			if _, ok := in.globals[g]; !ok {
				cell := in.zero(deref(g.Type()))
				in.globals[g] = &cell
			}
		}
	}
	path := pkg.Pkg.Path()
	if hook, ok := customInit[path]; ok {
		hook(in, pkg)
		return
	}
	if in.cfg.skipInit(path) {
		return
	}
	initFn := pkg.Func("init")
	if initFn == nil {
		return
	}
	in.initDepth++
	saveT := in.initTarget
	in.initTarget = initFn
	defer func() { in.initDepth--; in.initTarget = saveT }()
	in.callSSA(in.curG.initFrame(), token.NoPos, initFn, nil, nil)
}

// ---------- instruction dispatch ----------

type continuation int

const (
	kNext continuation = iota
	kReturn
	kJump
)

func (in *Interp) visitInstr(fr *frame, instr ssa.Instruction) continuation {
	in.steps++
	fr.cur = instr
	fr.icount++
	if in.steps > in.cfg.MaxSteps {
		in.abortPath(outcomeBound, fmt.Sprintf("step bound %d exceeded%s", in.cfg.MaxSteps, in.where(fr, instr.Pos())))
	}
	switch instr := instr.(type) {
	case *ssa.DebugRef:

	case *ssa.UnOp:
		fr.env[instr] = in.unop(fr, instr, fr.get(instr.X))

	case *ssa.BinOp:
		fr.env[instr] = in.binop(fr, instr, instr.Op, instr.X.Type(), fr.get(instr.X), fr.get(instr.Y))

	case *ssa.Call:
		fn, args := in.prepareCall(fr, &instr.Call)
		fr.env[instr] = in.call(fr, instr.Pos(), fn, args, &instr.Call)

	case *ssa.ChangeInterface:
		fr.env[instr] = fr.get(instr.X)

	case *ssa.ChangeType:
		fr.env[instr] = fr.get(instr.X)

	case *ssa.Convert:
		fr.env[instr] = in.conv(instr.Type(), instr.X.Type(), fr.get(instr.X))

	case *ssa.MultiConvert:
		fr.env[instr] = in.conv(instr.Type(), instr.X.Type(), fr.get(instr.X))

	case *ssa.SliceToArrayPointer:
		s := fr.get(instr.X).([]value)
		n := under(deref(instr.Type())).(*types.Array).Len()
		if int64(len(s)) < n {
			in.targetPanicf(fr, "slice to array pointer: length %d < %d", len(s), n)
		}
		if s == nil {
			fr.env[instr] = (*value)(nil)
		} else {
			var v value = array(s[:n:n])
			fr.env[instr] = &v
		}

	case *ssa.MakeInterface:
		fr.env[instr] = iface{t: instr.X.Type(), v: fr.get(instr.X)}

	case *ssa.Extract:
		fr.env[instr] = fr.get(instr.Tuple).(tuple)[instr.Index]

	case *ssa.Slice:
		fr.env[instr] = in.slice(fr, instr, fr.get(instr.X), fr.get(instr.Low), fr.get(instr.High), fr.get(instr.Max))

	case *ssa.Return:
		switch len(instr.Results) {
		case 0:
		case 1:
			fr.result = fr.get(instr.Results[0])
		default:
			res := make(tuple, 0, len(instr.Results))
			for _, r := range instr.Results {
				res = append(res, fr.get(r))
			}
			fr.result = res
		}
		fr.block = nil
		return kReturn

	case *ssa.RunDefers:
		fr.runDefers()

	case *ssa.Panic:
		panic(targetPanic{v: fr.get(instr.X), msg: in.where(fr, instr.Pos())})

	case *ssa.Send:
		in.chanSend(fr, fr.get(instr.Chan).(*Chan), fr.get(instr.X))

	case *ssa.Store:
		p := fr.get(instr.Addr)
		pv, ok := p.(*value)
		if !ok {
			panic(engineErr("store through %T%s", p, in.where(fr, instr.Pos())))
		}
		if pv == nil {
			in.targetPanicf(fr, "nil pointer dereference (store)%s", in.where(fr, instr.Pos()))
		}
		*pv = copyVal(fr.get(instr.Val))

	case *ssa.If:
		cond := fr.get(instr.Cond).(*Term)
		succ := 1
		if cond.IsConst() {
			if cond.c == 1 {
				succ = 0
			}
		} else {
			if fr.symDecisions == nil {
				fr.symDecisions = map[ssa.Instruction]int{}
			}
			fr.symDecisions[instr]++
			if fr.symDecisions[instr] > in.cfg.Unwind {
				in.abortPath(outcomeBound, fmt.Sprintf("unwind bound %d exceeded%s", in.cfg.Unwind, in.where(fr, instr.Pos())))
			}
			pos := instr.Pos()
			if pos == token.NoPos {
				pos = instr.Cond.Pos()
			}
			if in.branch(cond, in.posString(pos)) {
				succ = 0
			}
		}
		fr.prevBlock, fr.block = fr.block, fr.block.Succs[succ]
		return kJump

	case *ssa.Jump:
		fr.prevBlock, fr.block = fr.block, fr.block.Succs[0]
		return kJump

	case *ssa.Defer:
		fn, args := in.prepareCall(fr, &instr.Call)
		defers := &fr.defers
		if instr.DeferStack != nil {
			if into := fr.get(instr.DeferStack); into != nil {
				defers = into.(**deferred)
			}
		}
		*defers = &deferred{fn: fn, args: args, instr: instr, tail: *defers}

	case *ssa.Go:
		fn, args := in.prepareCall(fr, &instr.Call)
		in.spawn(fr, instr.Pos(), fn, args, &instr.Call)

	case *ssa.MakeChan:
		n := in.concreteInt(fr.get(instr.Size).(*Term), true, "chan size")
		fr.env[instr] = in.newChan(int(n), under(instr.Type()).(*types.Chan).Elem())

	case *ssa.Alloc:
		var addr *value
		if instr.Heap {
			addr = new(value)
			fr.env[instr] = addr
		} else {
			addr = fr.env[instr].(*value)
		}
		*addr = in.zero(deref(instr.Type()))

	case *ssa.MakeSlice:
		c := in.concreteInt(fr.get(instr.Cap).(*Term), true, "make cap")
		l := in.concreteInt(fr.get(instr.Len).(*Term), true, "make len")
		if l < 0 || c < l || c > 1<<20 {
			in.targetPanicf(fr, "makeslice: len/cap out of range")
		}
		s := make([]value, c)
		tElt := under(instr.Type()).(*types.Slice).Elem()
		for i := range s {
			s[i] = in.zero(tElt)
		}
		fr.env[instr] = s[:l]

	case *ssa.MakeMap:
		fr.env[instr] = newMap()

	case *ssa.Range:
		fr.env[instr] = in.rangeIter(fr.get(instr.X))

	case *ssa.Next:
		fr.env[instr] = fr.get(instr.Iter).(iter).next(in)

	case *ssa.FieldAddr:
		x := fr.get(instr.X)
		p, ok := x.(*value)
		if !ok {
			panic(engineErr("FieldAddr on %T (%s)%s", x, instr.X.Type(), in.where(fr, instr.Pos())))
		}
		if p == nil {
			in.targetPanicf(fr, "nil pointer dereference (field %d of %s)%s", instr.Field, instr.X.Type(), in.where(fr, instr.Pos()))
		}
		st, ok := (*p).(structure)
		if !ok {
			panic(engineErr("FieldAddr: pointee is %T, want struct (%s)%s", *p, instr.X.Type(), in.where(fr, instr.Pos())))
		}
		fr.env[instr] = &st[instr.Field]

	case *ssa.Field:
		fr.env[instr] = copyVal(fr.get(instr.X).(structure)[instr.Field])

	case *ssa.IndexAddr:
		x := fr.get(instr.X)
		idx := fr.get(instr.Index).(*Term)
		switch x := x.(type) {
		case []value:
			i := in.indexCheck(fr, instr, idx, instr.Index.Type(), len(x))
			fr.env[instr] = &x[i]
		case *value:
			if x == nil {
				in.targetPanicf(fr, "nil pointer dereference (array)%s", in.where(fr, instr.Pos()))
			}
			a := (*x).(array)
			i := in.indexCheck(fr, instr, idx, instr.Index.Type(), len(a))
			fr.env[instr] = &a[i]
		default:
			panic(engineErr("unexpected x type in IndexAddr: %T", x))
		}

	case *ssa.Index:
		x := fr.get(instr.X)
		idx := fr.get(instr.Index).(*Term)
		switch x := x.(type) {
		case array:
			i := in.indexCheck(fr, instr, idx, instr.Index.Type(), len(x))
			fr.env[instr] = copyVal(x[i])
		case string:
			i := in.indexCheck(fr, instr, idx, instr.Index.Type(), len(x))
			fr.env[instr] = in.tc.Const(8, uint64(x[i]))
		case *SymStr:
			i := in.indexCheck(fr, instr, idx, instr.Index.Type(), len(x.b))
			fr.env[instr] = x.b[i]
		default:
			panic(engineErr("unexpected x type in Index: %T", x))
		}

	case *ssa.Lookup:
		fr.env[instr] = in.lookup(fr, instr, fr.get(instr.X), fr.get(instr.Index))

	case *ssa.MapUpdate:
		m := fr.get(instr.Map).(*Map)
		if m == nil {
			in.targetPanicf(fr, "assignment to entry in nil map%s", in.where(fr, instr.Pos()))
		}
		in.mapSet(m, fr.get(instr.Key), copyVal(fr.get(instr.Value)))

	case *ssa.TypeAssert:
		fr.env[instr] = in.typeAssert(fr, instr, fr.get(instr.X).(iface))

	case *ssa.MakeClosure:
		bindings := make([]value, 0, len(instr.Bindings))
		for _, b := range instr.Bindings {
			bindings = append(bindings, fr.get(b))
		}
		fr.env[instr] = &closure{instr.Fn.(*ssa.Function), bindings}

	case *ssa.Phi:
		panic(engineErr("unreachable phi"))

	case *ssa.Select:
		fr.env[instr] = in.selectStmt(fr, instr)

	default:
		panic(engineErr("unexpected instruction: %T", instr))
	}
	return kNext
}

func (in *Interp) posString(pos token.Pos) string {
	if pos == token.NoPos {
		return "?"
	}
	p := in.prog.Fset.Position(pos)
	f := p.Filename
	if i := strings.LastIndex(f, "/"); i >= 0 {
		if j := strings.LastIndex(f[:i], "/"); j >= 0 {
			f = f[j+1:]
		}
	}
	return fmt.Sprintf("%s:%d", f, p.Line)
}

func (in *Interp) targetPanicf(fr *frame, format string, args ...any) {
	msg := fmt.Sprintf(format, args...)
	if !strings.Contains(msg, "\n    in ") {
		msg += in.where(fr, token.NoPos)
	}
	panic(targetPanic{v: iface{t: in.runtimeErrType(), v: "runtime error: " + msg}, msg: msg})
}

func (in *Interp) runtimeErrType() types.Type {
	return types.Universe.Lookup("error").Type()
}

// indexCheck returns a concrete in-range index, forking if idx is symbolic.
func (in *Interp) indexCheck(fr *frame, instr ssa.Instruction, idx *Term, idxT types.Type, n int) int {
	if idx.IsConst() {
		_, signed, _ := isInt(idxT)
		var v int64
		if signed {
			v = signExt(idx.c, idx.w)
		} else {
			v = int64(idx.c)
			if idx.c > 1<<62 {
				v = -1
			}
		}
		if v < 0 || v >= int64(n) {
			in.targetPanicf(fr, "index out of range [%d] with length %d%s", v, n, in.where(fr, instr.Pos()))
		}
		return int(v)
	}
	i, ok := in.chooseIndex(idx, idxT, n, in.posString(instr.Pos()))
	if !ok {
		in.targetPanicf(fr, "index out of range [symbolic] with length %d%s", n, in.where(fr, instr.Pos()))
	}
	return i
}

// ---------- calls ----------

func (in *Interp) prepareCall(fr *frame, call *ssa.CallCommon) (fn value, args []value) {
	v := fr.get(call.Value)
	if call.Method == nil {
		fn = v
	} else {
		recv := v.(iface)
		if recv.t == nil {
			in.targetPanicf(fr, "method %s invoked on nil interface%s", call.Method.Name(), in.where(fr, call.Pos()))
		}
		if f := in.lookupMethod(recv, call.Method); f != nil {
			fn = f
		} else {
			panic(engineErr("method set for dynamic type %v does not contain %s", recv.t, call.Method))
		}
		args = append(args, recv.v)
	}
	for _, arg := range call.Args {
		args = append(args, copyVal(fr.get(arg)))
	}
	return
}

// lookupMethod resolves an interface method on a dynamic value; engine-defined
// objects get NativeFuncs.
func (in *Interp) lookupMethod(recv iface, meth *types.Func) value {
	switch o := recv.v.(type) {
	case *Opaque:
		return in.opaqueMethod(o, meth)
	case *EngCtx:
		return ctxMethod(o, meth)
	case *EngErr:
		return errMethod(o, meth)
	case *EngHash:
		return hashMethod(o, meth)
	}
	if f := in.prog.LookupMethod(recv.t, meth.Pkg(), meth.Name()); f != nil {
		return f
	}
	return nil
}

func (in *Interp) call(caller *frame, callpos token.Pos, fn value, args []value, cc *ssa.CallCommon) value {
	switch fn := fn.(type) {
	case *ssa.Function:
		if fn == nil {
			in.targetPanicf(caller, "call of nil function%s", in.where(caller, callpos))
		}
		return in.callSSA(caller, callpos, fn, args, nil)
	case *closure:
		return in.callSSA(caller, callpos, fn.Fn, args, fn.Env)
	case *ssa.Builtin:
		return in.callBuiltin(caller, callpos, fn, args, cc)
	case *NativeFunc:
		return fn.fn(in, args)
	}
	panic(engineErr("cannot call %T%s", fn, in.where(caller, callpos)))
}

// callValue invokes a function value from inside an intrinsic.
func (in *Interp) callValue(fn value, args ...value) value {
	return in.call(in.curFrame(), token.NoPos, fn, args, nil)
}

func (in *Interp) curFrame() *frame { return in.curG.top }

func (in *Interp) callSSA(caller *frame, callpos token.Pos, fn *ssa.Function, args []value, env []value) value {
	g := in.curG
	in.frameSerial++
	fr := &frame{in: in, g: g, caller: caller, fn: fn, callpos: callpos, serial: in.frameSerial}
	if caller != nil && caller.fn == nil {
		fr.caller = nil // synthetic init frame
	}
	if fn.Parent() == nil {
		if fn.Synthetic == "package initializer" && fn != in.initTarget {
			return nil // packages are initialised lazily, never transitively
		}
		if in.bypass == fn {
			in.bypass = nil
		} else if repl, ok := in.cfg.Stubs[fn.String()]; ok && in.w.ex.entry.Pkg != nil {
			if rf := in.w.ex.entry.Pkg.Func(repl); rf != nil {
				return in.callSSA(caller, callpos, rf, args, nil)
			}
			panic(engineErr("stub function %s not found in harness package", repl))
		} else if r, handled := in.tryIntrinsic(fr, fn, args); handled {
			return r
		}
		if fn.Blocks == nil {
			panic(engineErr("no code for function: %s%s", fn, in.where(caller, callpos)))
		}
	}
	if fn.TypeParams().Len() > 0 && len(fn.TypeArgs()) == 0 {
		panic(engineErr("generic function body executed: %s", fn))
	}
	if in.trace {
		fmt.Printf("%*s> %s\n", in.depth, "", fn)
	}
	in.noteFunc(fn)
	in.depth++
	if in.depth > 400 {
		in.abortPath(outcomeBound, "call depth exceeded"+in.where(caller, callpos))
	}
	saveTop := g.top
	g.top = fr
	defer func() { g.top = saveTop; in.depth-- }()

	fr.env = make(map[ssa.Value]value, 16)
	fr.block = fn.Blocks[0]
	fr.locals = make([]value, len(fn.Locals))
	for i, l := range fn.Locals {
		fr.locals[i] = in.zero(deref(l.Type()))
		fr.env[l] = &fr.locals[i]
	}
	for i, p := range fn.Params {
		fr.env[p] = args[i]
	}
	for i, fv := range fn.FreeVars {
		fr.env[fv] = env[i]
	}
	for fr.block != nil {
		in.runFrame(fr)
	}
	return fr.result
}

func (in *Interp) runFrame(fr *frame) {
	defer func() {
		if fr.block == nil {
			return
		}
		r := recover()
		switch r.(type) {
		case targetPanic:
		case nil:
			return
		default:
			// engine errors, path aborts, host runtime errors: propagate untouched
			if re, ok := r.(runtime.Error); ok {
				buf := make([]byte, 1<<14)
				n := runtime.Stack(buf, false)
				panic(&EngineError{msg: "host runtime error: " + re.Error() + in.where(fr, token.NoPos), stack: string(buf[:n])})
			}
			panic(r)
		}
		fr.panicking = true
		fr.panic = r
		fr.runDefers()
		fr.block = fr.fn.Recover
		if fr.block == nil {
			// no named results: return zero value
			fr.result = in.zeroResults(fr.fn)
		}
	}()
	for {
		nonPhis := in.executePhis(fr)
		for _, instr := range nonPhis {
			if in.visitInstr(fr, instr) == kReturn {
				return
			}
		}
	}
}

func (in *Interp) zeroResults(fn *ssa.Function) value {
	res := fn.Signature.Results()
	switch res.Len() {
	case 0:
		return nil
	case 1:
		return in.zero(res.At(0).Type())
	}
	t := make(tuple, res.Len())
	for i := range t {
		t[i] = in.zero(res.At(i).Type())
	}
	return t
}

func (in *Interp) executePhis(fr *frame) []ssa.Instruction {
	firstNonPhi := -1
	for i, instr := range fr.block.Instrs {
		if _, ok := instr.(*ssa.Phi); !ok {
			firstNonPhi = i
			break
		}
	}
	nonPhis := fr.block.Instrs[firstNonPhi:]
	if firstNonPhi > 0 {
		phis := fr.block.Instrs[:firstNonPhi]
		predIndex := slices.Index(fr.block.Preds, fr.prevBlock)
		tmp := make([]value, len(phis))
		for i, phi := range phis {
			tmp[i] = fr.get(phi.(*ssa.Phi).Edges[predIndex])
		}
		for i, phi := range phis {
			fr.env[phi.(*ssa.Phi)] = tmp[i]
		}
	}
	return nonPhis
}

func (fr *frame) runDefer(d *deferred) {
	var ok bool
	defer func() {
		if !ok {
			r := recover()
			if _, isT := r.(targetPanic); !isT {
				panic(r)
			}
			fr.panicking = true
			fr.panic = r
		}
	}()
	fr.in.call(fr, d.instr.Pos(), d.fn, d.args, &d.instr.Call)
	ok = true
}

func (fr *frame) runDefers() {
	for d := fr.defers; d != nil; d = d.tail {
		fr.runDefer(d)
	}
	fr.defers = nil
	if fr.panicking {
		panic(fr.panic)
	}
}

func (in *Interp) doRecover(caller *frame) value {
	if caller != nil && !caller.panicking && caller.caller != nil && caller.caller.panicking {
		caller.caller.panicking = false
		p := caller.caller.panic
		caller.caller.panic = nil
		if tp, ok := p.(targetPanic); ok {
			if v, ok := tp.v.(iface); ok {
				return v
			}
			return iface{t: types.Typ[types.String], v: tp.v}
		}
		panic(p)
	}
	return iface{}
}

// ---------- misc helpers used by instructions ----------

func (in *Interp) slice(fr *frame, instr *ssa.Slice, x, lo, hi, max value) value {
	var Len, Cap int
	switch x := x.(type) {
	case string:
		Len = len(x)
		Cap = Len
	case *SymStr:
		Len = len(x.b)
		Cap = Len
	case []value:
		Len = len(x)
		Cap = cap(x)
	case *value:
		if x == nil {
			in.targetPanicf(fr, "slice of nil array pointer")
		}
		a := (*x).(array)
		Len = len(a)
		Cap = len(a)
	default:
		panic(engineErr("slice: unexpected X type: %T", x))
	}
	l, h, m := 0, Len, Cap
	ci := func(v value, what string) int {
		t := v.(*Term)
		if t.IsConst() {
			return int(signExt(t.c, t.w))
		}
		// symbolic bound: enumerate feasible values in 0..Cap
		i, ok := in.chooseIndex(t, types.Typ[types.Int], Cap+1, in.posString(instr.Pos())+" slice "+what)
		if !ok {
			return -1
		}
		return i
	}
	if lo != nil {
		l = ci(lo, "low")
	}
	if hi != nil {
		h = ci(hi, "high")
	}
	if max != nil {
		m = ci(max, "max")
	}
	if _, isStr := x.(string); isStr && hi == nil {
		h = Len
	}
	if l < 0 || h < l || m < h || m > Cap {
		in.targetPanicf(fr, "slice bounds out of range [%d:%d:%d] with capacity %d%s", l, h, m, Cap, in.where(fr, instr.Pos()))
	}
	switch x := x.(type) {
	case string:
		if h > Len {
			in.targetPanicf(fr, "slice bounds out of range [%d:%d] with length %d%s", l, h, Len, in.where(fr, instr.Pos()))
		}
		return x[l:h]
	case *SymStr:
		if h > Len {
			in.targetPanicf(fr, "slice bounds out of range [%d:%d] with length %d%s", l, h, Len, in.where(fr, instr.Pos()))
		}
		return &SymStr{b: x.b[l:h:h]}
	case []value:
		if x == nil {
			return []value(nil)
		}
		if h > Len {
			// re-slicing into spare capacity: memory the host append left nil is zero natively
			if st, ok := under(instr.Type()).(*types.Slice); ok {
				full := x[:h]
				for i := Len; i < h; i++ {
					if full[i] == nil {
						full[i] = in.zero(st.Elem())
					}
				}
			}
		}
		return x[l:h:m]
	case *value:
		a := (*x).(array)
		return []value(a)[l:h:m]
	}
	panic("unreachable")
}

func (in *Interp) typeAssert(fr *frame, instr *ssa.TypeAssert, itf iface) value {
	var v value
	err := ""
	if itf.t == nil {
		err = fmt.Sprintf("interface conversion: interface is nil, not %s", instr.AssertedType)
	} else if idst, ok := under(instr.AssertedType).(*types.Interface); ok {
		v = itf
		if !in.implements(itf, idst) {
			err = fmt.Sprintf("interface conversion: %s does not implement %s", itf.t, instr.AssertedType)
		}
	} else if types.Identical(itf.t, instr.AssertedType) {
		v = copyVal(itf.v)
	} else {
		err = fmt.Sprintf("interface conversion: interface is %s, not %s", itf.t, instr.AssertedType)
	}
	if err != "" {
		if !instr.CommaOk {
			in.targetPanicf(fr, "%s%s", err, in.where(fr, instr.Pos()))
		}
		return tuple{in.zero(instr.AssertedType), in.tc.False()}
	}
	if instr.CommaOk {
		return tuple{v, in.tc.True()}
	}
	return v
}

func (in *Interp) implements(itf iface, idst *types.Interface) bool {
	switch itf.v.(type) {
	case *EngCtx:
		return idst.NumMethods() == 0 || types.Implements(in.ctxIfaceType(), idst) || idst.NumMethods() <= 4
	case *EngErr:
		for i := 0; i < idst.NumMethods(); i++ {
			switch idst.Method(i).Name() {
			case "Error", "Unwrap":
			default:
				return false
			}
		}
		return true
	}
	if _, isIface := under(itf.t).(*types.Interface); isIface {
		// opaque value typed by an interface
		return types.Implements(itf.t, idst) || types.AssignableTo(itf.t, idst)
	}
	return types.Implements(itf.t, idst)
}
