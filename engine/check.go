package main

// One check run: load /repo with the harness overlay, explore every harness of the
// property, validate sampled paths natively, replay counterexamples, write evidence.

import (
	"encoding/json"
	"fmt"
	"go/ast"
	"os"
	"path/filepath"
	"regexp"
	"sort"
	"strconv"
	"strings"
	"time"

	"golang.org/x/tools/go/packages"
	"golang.org/x/tools/go/ssa"
	"golang.org/x/tools/go/ssa/ssautil"
)

type CheckRun struct {
	Prop, Tier, Repo, Verif, Only string
	Workers                       int
	NoReplay, Verbose             bool

	overlay  map[string][]byte
	pkgDirs  []string
	prog     *ssa.Program
	pkgs     []*ssa.Package
	loadTime time.Duration
	results  []*HarnessResult
}

type HarnessResult struct {
	Name     string
	Pkg      string
	PkgDir   string
	Cfg      Cfg
	Ex       *Explorer
	Wall     time.Duration
	Expect   []string // reach tags that must be hit
	Known    []string
	Replays  []ReplayOutcome
	Validated int
	ValidationMismatch []string
	Notes    []string
}

var pkgClauseRe = regexp.MustCompile(`(?m)^package\s+(\w+)`)

func (r *CheckRun) buildOverlay() error {
	files, err := harnessFiles(r.Verif, r.Prop)
	if err != nil {
		return err
	}
	if len(files) == 0 {
		return fmt.Errorf("no harness files for %s", r.Prop)
	}
	tmpl, err := os.ReadFile(filepath.Join(r.Verif, "harness", "vf", "vf.go.tmpl"))
	if err != nil {
		return err
	}
	r.overlay = map[string][]byte{}
	for rel, fs := range files {
		pkgName := ""
		for _, f := range fs {
			src, err := os.ReadFile(f)
			if err != nil {
				return err
			}
			m := pkgClauseRe.FindSubmatch(src)
			if m == nil {
				return fmt.Errorf("%s: no package clause", f)
			}
			pkgName = string(m[1])
			r.overlay[filepath.Join(r.Repo, rel, "zz_verif_"+filepath.Base(f))] = src
		}
		r.overlay[filepath.Join(r.Repo, rel, "zz_verif_vf.go")] = []byte(strings.Replace(string(tmpl), "package PKG", "package "+pkgName, 1))
		r.pkgDirs = append(r.pkgDirs, rel)
	}
	sort.Strings(r.pkgDirs)
	return nil
}

func (r *CheckRun) load() error {
	start := time.Now()
	var patterns []string
	for _, d := range r.pkgDirs {
		patterns = append(patterns, "./"+d)
	}
	cfg := &packages.Config{
		Mode:    packages.LoadAllSyntax,
		Dir:     r.Repo,
		Overlay: r.overlay,
		Env: append(os.Environ(), "GOFLAGS=-mod=mod", "GOPROXY=off", "GOTOOLCHAIN=local", "GOWORK=off",
			"PATH=/opt/veriftools/go1.26.8/bin:"+os.Getenv("PATH")),
	}
	pkgs, err := packages.Load(cfg, patterns...)
	if err != nil {
		return err
	}
	nerr := 0
	packages.Visit(pkgs, nil, func(p *packages.Package) {
		for _, e := range p.Errors {
			if nerr < 20 {
				fmt.Fprintf(os.Stderr, "load error: %s: %v\n", p.PkgPath, e)
			}
			nerr++
		}
	})
	if nerr > 0 {
		return fmt.Errorf("%d package load errors (does /repo build?)", nerr)
	}
	prog, spkgs := ssautil.AllPackages(pkgs, ssa.InstantiateGenerics)
	prog.Build()
	r.prog = prog
	r.pkgs = spkgs
	r.loadTime = time.Since(start)
	return nil
}

var directiveRe = regexp.MustCompile(`^//vf:(\w+)\s*(.*)$`)

func (r *CheckRun) harnessCfg(fn *ssa.Function) (Cfg, []string, []string) {
	cfg := defaultCfg()
	cfg.Workers = r.Workers
	var expect, notes []string
	decl, ok := fn.Syntax().(*ast.FuncDecl)
	if !ok || decl.Doc == nil {
		return cfg, nil, nil
	}
	apply := func(kv string) {
		for _, f := range strings.Fields(kv) {
			k, v, ok := strings.Cut(f, "=")
			if !ok {
				continue
			}
			n, _ := strconv.Atoi(v)
			switch k {
			case "unwind":
				cfg.Unwind = n
			case "decisions":
				cfg.MaxDecisions = n
			case "paths":
				cfg.MaxPaths = n
			case "steps":
				cfg.MaxSteps = n
			case "preempt":
				cfg.PreemptBound = n
			case "goroutines":
				cfg.MaxGoroutines = n
			case "timerfires":
				cfg.MaxTimerFires = n
			case "solverms":
				cfg.SolverTimeoutMs = n
			case "maprev":
				cfg.MapOrderReverse = n != 0
			}
		}
	}
	for _, c := range decl.Doc.List {
		m := directiveRe.FindStringSubmatch(c.Text)
		if m == nil {
			continue
		}
		switch m[1] {
		case "bounds":
			apply(m[2])
		case "quick":
			if r.Tier == "quick" {
				apply(m[2])
			}
		case "thorough":
			if r.Tier == "thorough" {
				apply(m[2])
			}
		case "expect":
			for _, f := range strings.Fields(m[2]) {
				expect = append(expect, f)
			}
		case "note":
			notes = append(notes, m[2])
		}
	}
	return cfg, expect, notes
}

func (r *CheckRun) Execute() int {
	if err := r.buildOverlay(); err != nil {
		fmt.Fprintln(os.Stderr, "overlay:", err)
		return 2
	}
	if err := r.load(); err != nil {
		fmt.Fprintln(os.Stderr, "load:", err)
		return 2
	}
	if r.Verbose {
		fmt.Printf("loaded %d packages in %.1fs\n", len(r.prog.AllPackages()), r.loadTime.Seconds())
	}
	prefix := "Verif" + r.Prop + "_"
	var entries []*ssa.Function
	for _, p := range r.pkgs {
		if p == nil {
			continue
		}
		for name, m := range p.Members {
			fn, ok := m.(*ssa.Function)
			if !ok || !strings.HasPrefix(name, prefix) {
				continue
			}
			if r.Only != "" && !strings.Contains(name, r.Only) {
				continue
			}
			entries = append(entries, fn)
		}
	}
	sort.Slice(entries, func(i, j int) bool { return entries[i].Name() < entries[j].Name() })
	if len(entries) == 0 {
		fmt.Fprintln(os.Stderr, "no harness functions found with prefix", prefix)
		return 2
	}
	tierN := 0
	if r.Tier == "thorough" {
		tierN = 1
	}
	for _, fn := range entries {
		cfg, expect, notes := r.harnessCfg(fn)
		hr := &HarnessResult{Name: fn.Name(), Pkg: fn.Pkg.Pkg.Path(), Cfg: cfg, Expect: expect, Notes: notes}
		hr.PkgDir = strings.TrimPrefix(strings.TrimPrefix(hr.Pkg, "github.com/prometheus/alertmanager"), "/")
		start := time.Now()
		ex := NewExplorer(r.prog, fn, cfg)
		ex.tier = tierN
		ex.Run()
		hr.Ex = ex
		hr.Wall = time.Since(start)
		r.results = append(r.results, hr)
		r.printHarness(hr)
	}
	return r.finish()
}

func (r *CheckRun) printHarness(hr *HarnessResult) {
	ex := hr.Ex
	var oc []string
	for o, n := range ex.ByOutcome {
		oc = append(oc, fmt.Sprintf("%s=%d", o, n))
	}
	sort.Strings(oc)
	fmt.Printf("  %-40s paths=%d [%s] queries=%d solver=%.1fs unknown=%d wall=%.1fs\n", hr.Name, ex.Paths, strings.Join(oc, " "),
		ex.Queries, ex.SolverTime.Seconds(), ex.UnknownQ, hr.Wall.Seconds())
	for _, name := range sortedKeys(ex.AssertStats) {
		st := ex.AssertStats[name]
		fmt.Printf("      assert %-36s holds=%d violated=%d unknown=%d\n", name, st.Holds, st.Violated, st.Unknown)
	}
	if r.Verbose {
		for _, t := range sortedKeys(ex.ReachStats) {
			fmt.Printf("      reach  %-36s %d\n", t, ex.ReachStats[t])
		}
	}
	for i, p := range ex.Problems {
		if i >= 3 {
			fmt.Printf("      ... %d more problems\n", len(ex.Problems)-3)
			break
		}
		fmt.Printf("      PROBLEM %s: %s\n", p.Outcome, firstLines(p.Msg, 12))
	}
	for i, v := range ex.Violations {
		if i >= 3 {
			fmt.Printf("      ... %d more violating paths\n", len(ex.Violations)-3)
			break
		}
		fmt.Printf("      violating path: %s %s\n", v.Outcome, firstLines(v.Msg, 6))
		if r.Verbose {
			fmt.Printf("        decisions: %s\n", decisionString(v.Decisions))
			fmt.Printf("        witness: %s\n", witnessString(v))
		}
	}
}

func firstLines(s string, n int) string {
	lines := strings.Split(s, "\n")
	if len(lines) > n {
		lines = append(lines[:n], "…")
	}
	return strings.Join(lines, "\n")
}

func decisionString(ds []decision) string {
	var parts []string
	for _, d := range ds {
		parts = append(parts, d.kind+"="+d.label)
	}
	return strings.Join(parts, " ; ")
}

func witnessString(p *PathResult) string {
	var parts []string
	for _, in := range p.Inputs {
		if v, ok := p.Witness[in.Key]; ok {
			parts = append(parts, fmt.Sprintf("%s=%d", in.Key, int64(v)))
		}
	}
	return strings.Join(parts, " ")
}

// ---------- known findings ----------

type KnownFinding struct {
	Property  string `json:"property"`
	Harness   string `json:"harness"`
	Assertion string `json:"assertion"`
	Signature string `json:"signature"` // regexp over the decision-label signature of the path
	What      string `json:"what"`
}

type KnownFile struct {
	Findings []KnownFinding `json:"findings"`
	Fixed    []string       `json:"fixed"`
}

func (r *CheckRun) loadKnown() KnownFile {
	var kf KnownFile
	b, err := os.ReadFile(filepath.Join(r.Verif, "known_findings.json"))
	if err == nil {
		json.Unmarshal(b, &kf)
	}
	return kf
}

// pathSignature summarises a violating path: harness-level choices and assertion.
func pathSignature(p *PathResult) string {
	var parts []string
	for _, d := range p.Decisions {
		if strings.HasPrefix(d.kind, "idx@choice ") {
			parts = append(parts, strings.TrimPrefix(d.kind, "idx@choice ")+"="+d.label)
		}
	}
	return strings.Join(parts, ",")
}

type ReplayOutcome struct {
	Path       string
	Reproduced bool
	Detail     string
}

func (r *CheckRun) finish() int {
	code := 0
	for _, hr := range r.results {
		if len(hr.Ex.Problems) > 0 || hr.Ex.UnknownQ > 0 {
			code = 2
		}
		for _, tag := range hr.Expect {
			tag = strings.TrimPrefix(tag, "reach=")
			if hr.Ex.ReachStats[tag] == 0 {
				fmt.Printf("  VACUITY: %s never reached %q\n", hr.Name, tag)
				code = 2
			}
		}
	}
	for _, hr := range r.results {
		if len(hr.Ex.Violations) > 0 && code == 0 {
			code = 1
		}
	}
	return code
}
