package main

// One check run: load /repo with the harness overlay, explore every harness of the
// property, validate sampled paths natively, replay counterexamples, write evidence.

import (
	"encoding/json"
	"fmt"
	"go/ast"
	"os"
	"path/filepath"
	"regexp"
	"sort"
	"strconv"
	"strings"
	"time"

	"golang.org/x/tools/go/packages"
	"golang.org/x/tools/go/ssa"
	"golang.org/x/tools/go/ssa/ssautil"
)

type CheckRun struct {
	Prop, Tier, Repo, Verif, Only string
	Workers                       int
	NoReplay, Verbose             bool
	Solver, Arith                 string

	overlay    map[string][]byte
	pkgDirs    []string
	prog       *ssa.Program
	pkgs       []*ssa.Package
	loadTime   time.Duration
	results    []*HarnessResult
	nativeTime time.Duration
	started    time.Time
	origPath   string
}

type HarnessResult struct {
	Name               string
	Pkg                string
	PkgDir             string
	Cfg                Cfg
	Ex                 *Explorer
	Wall               time.Duration
	Expect             []string // reach tags that must be hit
	Known              []string
	Replays            []ReplayOutcome
	Validated          int
	Sequenced          int // validated natively with the engine's schedule enforced to the end
	SeqDiverged        int // sequenced runs that left the schedule (compared on assertions only)
	SeqNote            string
	ValidationMismatch []string
	Notes              []string
	NoNative           bool
	NoValidate         bool
	Twin               bool
}

var pkgClauseRe = regexp.MustCompile(`(?m)^package\s+(\w+)`)

func (r *CheckRun) buildOverlay() error {
	files, err := harnessFiles(r.Verif, r.Prop)
	if err != nil {
		return err
	}
	if len(files) == 0 {
		return fmt.Errorf("no harness files for %s", r.Prop)
	}
	tmpl, err := os.ReadFile(filepath.Join(r.Verif, "harness", "vf", "vf.go.tmpl"))
	if err != nil {
		return err
	}
	r.overlay = map[string][]byte{}
	for rel, fs := range files {
		pkgName := ""
		for _, f := range fs {
			src, err := os.ReadFile(f)
			if err != nil {
				return err
			}
			m := pkgClauseRe.FindSubmatch(src)
			if m == nil {
				return fmt.Errorf("%s: no package clause", f)
			}
			pkgName = string(m[1])
			r.overlay[filepath.Join(r.Repo, rel, "zz_verif_"+filepath.Base(f))] = src
		}
		r.overlay[filepath.Join(r.Repo, rel, "zz_verif_vf.go")] = []byte(strings.Replace(string(tmpl), "package PKG", "package "+pkgName, 1))
		r.pkgDirs = append(r.pkgDirs, rel)
	}
	sort.Strings(r.pkgDirs)
	return nil
}

func (r *CheckRun) load() error {
	start := time.Now()
	var patterns []string
	for _, d := range r.pkgDirs {
		patterns = append(patterns, "./"+d)
	}
	cfg := &packages.Config{
		Mode:    packages.LoadAllSyntax,
		Dir:     r.Repo,
		Overlay: r.overlay,
		Env: append(os.Environ(), "GOFLAGS=-mod=mod", "GOPROXY=off", "GOTOOLCHAIN=local", "GOWORK=off",
			"PATH=/opt/veriftools/go1.26.8/bin:"+os.Getenv("PATH")),
	}
	pkgs, err := packages.Load(cfg, patterns...)
	if err != nil {
		return err
	}
	nerr := 0
	packages.Visit(pkgs, nil, func(p *packages.Package) {
		for _, e := range p.Errors {
			if nerr < 20 {
				fmt.Fprintf(os.Stderr, "load error: %s: %v\n", p.PkgPath, e)
			}
			nerr++
		}
	})
	if nerr > 0 {
		return fmt.Errorf("%d package load errors (does /repo build?)", nerr)
	}
	prog, spkgs := ssautil.AllPackages(pkgs, ssa.InstantiateGenerics)
	prog.Build()
	r.prog = prog
	r.pkgs = spkgs
	r.loadTime = time.Since(start)
	return nil
}

var directiveRe = regexp.MustCompile(`^//vf:(\w+)\s*(.*)$`)

func (r *CheckRun) harnessCfg(fn *ssa.Function) (Cfg, []string, []string) {
	cfg := defaultCfg()
	cfg.Workers = r.Workers
	cfg.RepoDir = r.Repo
	if len(r.loadKnown().Findings) == 0 {
		// no known findings to tell apart: a handful of counterexamples is enough
		cfg.StopAfterViolations = 4
	}
	if r.Solver != "" {
		cfg.Solver = r.Solver
	}
	if r.Arith != "" {
		cfg.Arith = r.Arith
	}
	var expect, notes []string
	decl, ok := fn.Syntax().(*ast.FuncDecl)
	if !ok || decl.Doc == nil {
		return cfg, nil, nil
	}
	apply := func(kv string) {
		for _, f := range strings.Fields(kv) {
			k, v, ok := strings.Cut(f, "=")
			if !ok {
				continue
			}
			n, _ := strconv.Atoi(v)
			switch k {
			case "arith":
				cfg.Arith = v
			case "unwind":
				cfg.Unwind = n
			case "decisions":
				cfg.MaxDecisions = n
			case "paths":
				cfg.MaxPaths = n
			case "steps":
				cfg.MaxSteps = n
			case "preempt":
				cfg.PreemptBound = n
			case "goroutines":
				cfg.MaxGoroutines = n
			case "timerfires":
				cfg.MaxTimerFires = n
			case "solverms":
				cfg.SolverTimeoutMs = n
			case "sched":
				cfg.SchedFIFO = v == "fifo"
			case "slow":
				cfg.SlowBudget = n
			case "maporder":
				cfg.MapOrderIn = v
			case "maprev":
				cfg.MapOrderReverse = n != 0
			}
		}
	}
	for _, c := range decl.Doc.List {
		m := directiveRe.FindStringSubmatch(c.Text)
		if m == nil {
			continue
		}
		switch m[1] {
		case "bounds":
			apply(m[2])
		case "quick":
			if r.Tier == "quick" {
				apply(m[2])
			}
		case "thorough":
			if r.Tier == "thorough" {
				apply(m[2])
			}
		case "expect":
			for _, f := range strings.Fields(m[2]) {
				expect = append(expect, f)
			}
		case "note":
			notes = append(notes, m[2])
		case "stub":
			// //vf:stub <qualified function>=<harness function in the same package>
			if k, v, ok := strings.Cut(strings.TrimSpace(m[2]), "="); ok {
				if cfg.Stubs == nil {
					cfg.Stubs = map[string]string{}
				}
				cfg.Stubs[k] = v
				notes = append(notes, "engine-only stub: "+k+" is replaced by the harness function "+v+" (symbolic outcome)")
			}
		case "twin":
			notes = append(notes, "native runs use a linearised twin (steps executed sequentially): on passing paths only the assertions are compared, not tags or observations")
			expect = append(expect, "!twin")
		case "novalidate":
			notes = append(notes, "passing paths are not cross-validated natively: "+m[2])
			expect = append(expect, "!novalidate")
		case "nonative":
			notes = append(notes, "no native cross-validation: "+m[2])
			expect = append(expect, "!nonative")
		}
	}
	return cfg, expect, notes
}

func (r *CheckRun) Execute() int {
	r.started = time.Now()
	r.origPath = origPATH
	if err := r.buildOverlay(); err != nil {
		fmt.Fprintln(os.Stderr, "overlay:", err)
		return 2
	}
	if err := r.load(); err != nil {
		fmt.Fprintln(os.Stderr, "load:", err)
		return 2
	}
	if r.Verbose {
		fmt.Printf("loaded %d packages in %.1fs\n", len(r.prog.AllPackages()), r.loadTime.Seconds())
	}
	prefix := "Verif" + r.Prop + "_"
	var entries []*ssa.Function
	for _, p := range r.pkgs {
		if p == nil {
			continue
		}
		for name, m := range p.Members {
			fn, ok := m.(*ssa.Function)
			if !ok || !strings.HasPrefix(name, prefix) {
				continue
			}
			if r.Only != "" && !strings.Contains(name, r.Only) {
				continue
			}
			entries = append(entries, fn)
		}
	}
	sort.Slice(entries, func(i, j int) bool { return entries[i].Name() < entries[j].Name() })
	if len(entries) == 0 {
		fmt.Fprintln(os.Stderr, "no harness functions found with prefix", prefix)
		return 2
	}
	tierN := 0
	if r.Tier == "thorough" {
		tierN = 1
	}
	for _, fn := range entries {
		cfg, expect, notes := r.harnessCfg(fn)
		if v := os.Getenv("GOSMT_MAXPATHS"); v != "" { // debugging aid
			fmt.Sscanf(v, "%d", &cfg.MaxPaths)
		}
		hr := &HarnessResult{Name: fn.Name(), Pkg: fn.Pkg.Pkg.Path(), Cfg: cfg, Notes: notes}
		for _, e := range expect {
			if e == "!nonative" {
				hr.NoNative = true
			} else if e == "!twin" {
				hr.Twin = true
			} else if e == "!novalidate" {
				hr.NoValidate = true
			} else {
				hr.Expect = append(hr.Expect, e)
			}
		}
		hr.PkgDir = strings.TrimPrefix(strings.TrimPrefix(hr.Pkg, "github.com/prometheus/alertmanager"), "/")
		start := time.Now()
		ex := NewExplorer(r.prog, fn, cfg)
		ex.tier = tierN
		ex.Run()
		hr.Ex = ex
		hr.Wall = time.Since(start)
		r.results = append(r.results, hr)
		r.printHarness(hr)
	}
	return r.finish()
}

func (r *CheckRun) printHarness(hr *HarnessResult) {
	ex := hr.Ex
	var oc []string
	for o, n := range ex.ByOutcome {
		oc = append(oc, fmt.Sprintf("%s=%d", o, n))
	}
	sort.Strings(oc)
	fmt.Printf("  %-40s paths=%d [%s] queries=%d solver=%.1fs unknown=%d wall=%.1fs\n", hr.Name, ex.Paths, strings.Join(oc, " "),
		ex.Queries, ex.SolverTime.Seconds(), ex.UnknownQ, hr.Wall.Seconds())
	if ex.SecondOpinions > 0 {
		fmt.Printf("      %d queries timed out in the worker's solver and were re-asked to a second solver (z3 5.1, fresh, 4x time)\n", ex.SecondOpinions)
	}
	for _, name := range sortedKeys(ex.AssertStats) {
		st := ex.AssertStats[name]
		fmt.Printf("      assert %-36s holds=%d violated=%d unknown=%d\n", name, st.Holds, st.Violated, st.Unknown)
	}
	if r.Verbose {
		for _, t := range sortedKeys(ex.ReachStats) {
			fmt.Printf("      reach  %-36s %d\n", t, ex.ReachStats[t])
		}
	}
	for i, p := range ex.Problems {
		if i >= 3 {
			fmt.Printf("      ... %d more problems\n", len(ex.Problems)-3)
			break
		}
		fmt.Printf("      PROBLEM %s: %s\n", p.Outcome, firstLines(p.Msg, 12))
	}
	for i, v := range ex.Violations {
		if i >= 3 {
			fmt.Printf("      ... %d more violating paths\n", len(ex.Violations)-3)
			break
		}
		fmt.Printf("      violating path: %s %s\n", v.Outcome, firstLines(v.Msg, 6))
		if r.Verbose {
			fmt.Printf("        decisions: %s\n", decisionString(v.Decisions))
			fmt.Printf("        witness: %s\n", witnessString(v))
		}
	}
}

func firstLines(s string, n int) string {
	lines := strings.Split(s, "\n")
	if len(lines) > n {
		lines = append(lines[:n], "…")
	}
	return strings.Join(lines, "\n")
}

func decisionString(ds []decision) string {
	var parts []string
	for _, d := range ds {
		parts = append(parts, d.kind+"="+d.label)
	}
	return strings.Join(parts, " ; ")
}

func witnessString(p *PathResult) string {
	var parts []string
	for _, in := range p.Inputs {
		if v, ok := p.Witness[in.Key]; ok {
			parts = append(parts, fmt.Sprintf("%s=%d", in.Key, int64(v)))
		}
	}
	return strings.Join(parts, " ")
}

// ---------- known findings ----------

type KnownFinding struct {
	Property  string `json:"property"`
	Harness   string `json:"harness"`
	Assertion string `json:"assertion"`
	Signature string `json:"signature"` // regexp over the decision-label signature of the path
	What      string `json:"what"`
}

type KnownFile struct {
	Findings []KnownFinding `json:"findings"`
	Fixed    []string       `json:"fixed"`
}

func (r *CheckRun) loadKnown() KnownFile {
	var kf KnownFile
	b, err := os.ReadFile(filepath.Join(r.Verif, "known_findings.json"))
	if err == nil {
		json.Unmarshal(b, &kf)
	}
	return kf
}

// pathSignature summarises a violating path: harness-level choices and assertion.
func pathSignature(p *PathResult) string {
	var parts []string
	for _, d := range p.Decisions {
		if strings.HasPrefix(d.kind, "idx@choice ") {
			parts = append(parts, strings.TrimPrefix(d.kind, "idx@choice ")+"="+d.label)
		}
	}
	return strings.Join(parts, ",")
}

type ReplayOutcome struct {
	Path       string
	Reproduced bool
	Detail     string
	Signature  string
	Assertion  string
	Known      string
}

var harnessFuncRe = regexp.MustCompile(`(?m)^func (Verif\w+)\(\)`)

func (r *CheckRun) tierN() int {
	if r.Tier == "thorough" {
		return 1
	}
	return 0
}

// validate replays sampled OK paths and all violating paths natively.
func (r *CheckRun) validate() (problems []string) {
	if r.NoReplay {
		return nil
	}
	byDir := map[string][]*replayJob{}
	maxSamples := 24
	if r.Tier == "thorough" {
		maxSamples = 200
	}
	for _, hr := range r.results {
		if hr.NoNative {
			continue
		}
		n := 0
		for _, p := range hr.Ex.Samples {
			if hr.NoValidate {
				break
			}
			if p.Witness == nil || n >= maxSamples {
				continue
			}
			n++
			byDir[hr.PkgDir] = append(byDir[hr.PkgDir], &replayJob{hr: hr, path: p})
		}
		for i, p := range hr.Ex.Violations {
			if p.Witness == nil || i >= 24 {
				continue
			}
			byDir[hr.PkgDir] = append(byDir[hr.PkgDir], &replayJob{hr: hr, path: p})
		}
	}
	nSeq := 0
	for dir, jobs := range byDir {
		// paths with several goroutines are replayed with the engine's schedule enforced
		// (one instrumented build per package, shared by all its witnesses)
		seq := r.newSequencer()
		var first *replayJob
		for _, j := range jobs {
			if j.hr.Twin || goroutinesIn(j.path.Ops) < 2 {
				continue
			}
			if sched, _ := seq.schedule(j.path.Ops); len(sched) > 0 {
				j.schedOps, _ = json.Marshal(sched)
				if first == nil {
					first = j
				}
			}
		}
		if first != nil {
			first.extraOverlay = seq.render()
		}
		if err := r.runNative(dir, jobs); err != nil {
			problems = append(problems, err.Error())
			continue
		}
		for _, j := range jobs {
			if j.out == nil {
				problems = append(problems, fmt.Sprintf("%s: %s", j.hr.Name, j.err))
				continue
			}
			isViol := j.path.Violated != "" || j.path.Outcome == outcomePanic
			if !isViol {
				// a sequenced run that left the schedule took another interleaving: only
				// its assertions are compared, like a twin's
				loose := j.hr.Twin || (j.schedOps != nil && j.out.SchedReport != "")
				if j.schedOps != nil {
					if j.out.SchedReport == "" {
						j.hr.Sequenced++
					} else {
						j.hr.SeqDiverged++
						if j.hr.SeqNote == "" {
							j.hr.SeqNote = j.out.SchedReport
						}
					}
				}
				msg := compareNative(j.path, j.out, loose)
				if msg != "" && j.schedOps != nil {
					// parking goroutines can let the bubble's clock run ahead of the engine's
					// timing model; the assertions have to hold under Go's own scheduler anyway
					again := &replayJob{hr: j.hr, path: j.path}
					if err := r.runNative(dir, []*replayJob{again}); err == nil && again.out != nil {
						if m2 := compareNative(j.path, again.out, true); m2 == "" {
							j.hr.Notes = append(j.hr.Notes, "a sequenced validation run disagreed ("+firstLines(msg, 1)+"); the same witness under Go's scheduler agrees")
							msg = ""
						} else {
							msg = m2 + " (also under Go's scheduler)"
						}
					}
				}
				if msg != "" {
					j.hr.ValidationMismatch = append(j.hr.ValidationMismatch, msg+" [witness "+witnessString(j.path)+"]")
				} else {
					j.hr.Validated++
				}
				continue
			}
			ok, detail := violationReproduced(j.path, j.out)
			if ok && j.schedOps != nil && j.out.SchedReport != "" {
				// reproduced, but the run left the engine's schedule: only a run under Go's
				// own scheduler counts then
				ok, detail = false, "sequenced run left the schedule ("+j.out.SchedReport+")"
			}
			if !ok && j.hr.Cfg.MapOrderIn != "" {
				// the counterexample depends on Go's (random) map iteration order: the
				// native run is repeated a few times
				for try := 0; try < 8 && !ok; try++ {
					again := &replayJob{hr: j.hr, path: j.path}
					if err := r.runNative(dir, []*replayJob{again}); err != nil || again.out == nil {
						break
					}
					ok, detail = violationReproduced(j.path, again.out)
					if ok {
						detail += fmt.Sprintf(" (map-order dependent, reproduced on native run %d)", try+2)
					}
				}
			}
			if !ok && j.schedOps != nil && nSeq < 6 {
				// the instrumentation may itself disturb the run: once more without it
				nSeq++
				again := &replayJob{hr: j.hr, path: j.path}
				if err := r.runNative(dir, []*replayJob{again}); err == nil && again.out != nil {
					if ok2, d2 := violationReproduced(j.path, again.out); ok2 {
						ok, detail = true, d2+" (under Go's own scheduler)"
						j.schedOps = nil
					}
				}
			} else if ok && j.schedOps != nil && j.out.Sequenced {
				detail += " (engine's schedule enforced natively"
				if j.out.SchedReport != "" {
					detail += "; sequencer: " + j.out.SchedReport
				}
				detail += ")"
			}
			ro := ReplayOutcome{Reproduced: ok, Detail: detail, Signature: pathSignature(j.path), Assertion: j.path.Violated}
			if j.path.Outcome == outcomePanic {
				ro.Assertion = "no-panic"
			}
			if ok {
				// keep the witness as a replay file
				os.MkdirAll(filepath.Join(r.Verif, "replay"), 0o755)
				name := fmt.Sprintf("%s-%s-%d.json", r.Prop, j.hr.Name, len(j.hr.Replays))
				ro.Path = filepath.Join(r.Verif, "replay", name)
				w := makeWitness(r.Prop, j.hr, j.path, r.tierN())
				if j.schedOps != nil {
					w.SchedOps, w.Ops = j.schedOps, j.path.Ops
				}
				b, _ := json.MarshalIndent(w, "", " ")
				os.WriteFile(ro.Path, b, 0o644)
			}
			j.hr.Replays = append(j.hr.Replays, ro)
		}
	}
	return problems
}

func (r *CheckRun) finish() int {
	code := 0
	bad := func(format string, a ...any) {
		fmt.Printf("  INCONCLUSIVE: "+format+"\n", a...)
		code = 2
	}
	for _, p := range r.validate() {
		bad("native validation: %s", p)
	}
	known := r.loadKnown()
	violations := 0
	knownHits := map[string]bool{}
	for _, hr := range r.results {
		ex := hr.Ex
		if len(ex.Problems) > 0 {
			bad("%s: %d paths hit a bound / engine limit (first: %s)", hr.Name, len(ex.Problems), firstLines(ex.Problems[0].Msg, 2))
		}
		if ex.UnknownQ > 0 {
			bad("%s: %d solver queries returned unknown", hr.Name, ex.UnknownQ)
		}
		if ex.StoppedEarly {
			fmt.Printf("  note: %s: exploration stopped after %d violating paths (%d paths explored)\n", hr.Name, len(ex.Violations), ex.Paths)
		}
		for _, tag := range hr.Expect {
			tag = strings.TrimPrefix(tag, "reach=")
			if ex.ReachStats[tag] == 0 && !ex.StoppedEarly {
				bad("vacuity: %s never reached %q", hr.Name, tag)
			}
		}
		for _, m := range hr.ValidationMismatch {
			bad("%s: engine/native mismatch: %s", hr.Name, m)
		}
		if len(ex.Violations) > 0 && hr.NoNative && !r.NoReplay {
			os.MkdirAll(filepath.Join(r.Verif, "replay"), 0o755)
			for i, v := range ex.Violations {
				if i >= 8 {
					break
				}
				asrt := v.Violated
				if v.Outcome == outcomePanic {
					asrt = "no-panic"
				}
				sig := pathSignature(v)
				matched := false
				for _, k := range known.Findings {
					if k.Property == r.Prop && k.Harness == hr.Name && k.Assertion == asrt {
						if ok, _ := regexp.MatchString(k.Signature, sig); ok {
							matched = true
							if !knownHits[k.What] {
								knownHits[k.What] = true
								fmt.Printf("KNOWN-FINDING: property=%s %s\n", r.Prop, k.What)
							}
						}
					}
				}
				if matched {
					continue
				}
				name := fmt.Sprintf("%s-%s-%d.json", r.Prop, hr.Name, i)
				path := filepath.Join(r.Verif, "replay", name)
				b, _ := json.MarshalIndent(makeWitness(r.Prop, hr, v, r.tierN()), "", " ")
				os.WriteFile(path, b, 0o644)
				violations++
				fmt.Printf("VIOLATION property=%s replay=%s\n", r.Prop, path)
				fmt.Printf("  harness=%s assertion=%s signature=[%s] (engine-only harness: the counterexample is re-executable with `gosmt replay`, it has no native twin) %s\n", hr.Name, asrt, sig, firstLines(v.Msg, 2))
			}
		}
		if len(ex.Violations) > 0 && r.NoReplay {
			for _, v := range ex.Violations {
				fmt.Printf("  unreplayed counterexample in %s: %s\n", hr.Name, firstLines(v.Msg, 2))
			}
			violations += len(ex.Violations)
		}
		for _, ro := range hr.Replays {
			if !ro.Reproduced {
				bad("%s: counterexample for %s did not reproduce natively (%s)", hr.Name, ro.Assertion, ro.Detail)
				continue
			}
			matched := false
			for _, k := range known.Findings {
				if k.Property == r.Prop && k.Harness == hr.Name && k.Assertion == ro.Assertion {
					if ok, _ := regexp.MatchString(k.Signature, ro.Signature); ok {
						matched = true
						if !knownHits[k.What] {
							knownHits[k.What] = true
							fmt.Printf("KNOWN-FINDING: property=%s %s\n", r.Prop, k.What)
						}
						break
					}
				}
			}
			if !matched {
				violations++
				fmt.Printf("VIOLATION property=%s replay=%s\n", r.Prop, ro.Path)
				fmt.Printf("  harness=%s assertion=%s signature=[%s] %s\n", hr.Name, ro.Assertion, ro.Signature, ro.Detail)
			}
		}
	}
	if err := r.writeEvidence(violations, code); err != nil {
		bad("cannot write evidence: %v", err)
	}
	if violations > 0 {
		return 1
	}
	return code
}

func (r *CheckRun) writeEvidence(violations, code int) error {
	type hsum struct {
		Harness   string                    `json:"harness"`
		Package   string                    `json:"package"`
		Paths     int                       `json:"paths"`
		Outcomes  map[string]int            `json:"outcomes"`
		Asserts   map[string]map[string]int `json:"assertion_queries"`
		Reached   map[string]int            `json:"reached"`
		Bounds    map[string]int            `json:"bounds"`
		Queries   int                       `json:"queries"`
		SecondOp  int                       `json:"queries_reasked_to_second_solver,omitempty"`
		SolverS   float64                   `json:"solver_s"`
		WallS     float64                   `json:"wall_s"`
		Validated int                       `json:"paths_validated_natively"`
		Sequenced int                       `json:"of_which_with_the_engine_schedule_enforced,omitempty"`
		SeqDiv    int                       `json:"sequenced_runs_that_left_the_schedule,omitempty"`
		SeqNote   string                    `json:"first_schedule_divergence,omitempty"`
		Notes     []string                  `json:"notes,omitempty"`
	}
	var hs []hsum
	states, trans, validated, queries := 0, 0, 0, 0
	solverS := 0.0
	funcs := map[string]bool{}
	var samples []any
	discharged := 0
	for _, hr := range r.results {
		ex := hr.Ex
		h := hsum{Harness: hr.Name, Package: hr.Pkg, Paths: ex.Paths, Outcomes: map[string]int{}, Asserts: map[string]map[string]int{}, Reached: ex.ReachStats,
			Queries: ex.Queries, SecondOp: ex.SecondOpinions, SolverS: ex.SolverTime.Seconds(), WallS: hr.Wall.Seconds(), Validated: hr.Validated, Sequenced: hr.Sequenced, SeqDiv: hr.SeqDiverged, SeqNote: hr.SeqNote, Notes: hr.Notes,
			Bounds: map[string]int{"unwind": hr.Cfg.Unwind, "max_decisions": hr.Cfg.MaxDecisions, "max_paths": hr.Cfg.MaxPaths, "max_steps": hr.Cfg.MaxSteps,
				"preemption_bound": hr.Cfg.PreemptBound, "max_goroutines": hr.Cfg.MaxGoroutines, "max_timer_fires": hr.Cfg.MaxTimerFires, "deepest_decision_depth": ex.MaxDecDepth}}
		for o, n := range ex.ByOutcome {
			h.Outcomes[o.String()] = n
		}
		for n, st := range ex.AssertStats {
			h.Asserts[n] = map[string]int{"unsat_holds": st.Holds, "sat_violated": st.Violated, "unknown": st.Unknown}
			discharged += st.Holds
		}
		hs = append(hs, h)
		states += ex.Paths
		trans += ex.Transitions
		validated += hr.Validated
		queries += ex.Queries
		solverS += ex.SolverTime.Seconds()
		for f := range ex.Funcs {
			funcs[f] = true
		}
		for i, p := range ex.Samples {
			if i >= 2 {
				break
			}
			samples = append(samples, map[string]any{"harness": hr.Name, "decisions": decisionString(p.Decisions), "witness": witnessString(p), "reached": p.Reached})
		}
	}
	if trans == 0 {
		trans = 1
	}
	fl := make([]string, 0, len(funcs))
	for f := range funcs {
		fl = append(fl, f)
	}
	sort.Strings(fl)
	seed, _ := strconv.Atoi(os.Getenv("VERIF_SEED"))
	ev := map[string]any{
		"property_id": r.Prop,
		"tier":        r.Tier,
		"seed":        seed,
		"level":       "model_checking",
		"wall_s":      time.Since(r.started).Seconds(),
		"violations":  violations,
		"coverage": map[string]any{
			"states":                        states,
			"transitions":                   trans,
			"traces_validated_against_impl": validated,
			"samples":                       samples,
			"exhaustive":                    code == 0,
			"explanation":                   "states = feasible symbolic paths through the real SSA of /repo completed within the bounds; transitions = branch/schedule/choice decisions; each assertion query PC AND NOT(assert) was decided by the SMT solver for all values of the symbolic inputs on that path",
			"assertion_queries_unsat":       discharged,
			"solver_queries":                queries,
			"solver_s":                      solverS,
			"solver":                        "z3 4.8.12 (incremental, one process per worker)",
			"functions_encoded":             fl,
			"harnesses":                     hs,
			"load_s":                        r.loadTime.Seconds(),
			"native_replay_s":               r.nativeTime.Seconds(),
			"verdict":                       verdictWord(map[bool]int{true: 1, false: code}[violations > 0]),
		},
		"assumptions": r.assumptions(),
	}
	os.MkdirAll(filepath.Join(r.Verif, "evidence"), 0o755)
	b, err := json.MarshalIndent(ev, "", " ")
	if err != nil {
		return err
	}
	return os.WriteFile(filepath.Join(r.Verif, "evidence", r.Prop+".json"), b, 0o644)
}

func (r *CheckRun) assumptions() []string {
	a := []string{
		"bounded: only paths within the per-harness bounds listed under coverage.harnesses[].bounds are covered; exceeding a bound fails the check (never a pass)",
		"stubs: time (virtual clock, no monotonic reading, instants 1970..2200), sync/atomic/sync.Map (linearizable models), context, logging/metrics/tracing (no-ops), protobuf codec (opaque, assumed to round-trip), uuid/rand (fresh distinct values), regexp (native on concrete strings)",
		"concurrency: goroutines switch only at synchronisation operations (channel, mutex, sync.Map, atomic, timer, context); data races on plain memory are outside the claim",
		"map iteration follows insertion order",
	}
	for _, hr := range r.results {
		for _, n := range hr.Notes {
			a = append(a, hr.Name+": "+n)
		}
	}
	return a
}
