package main

// Opaque protobuf codec. An encoded message is ONE special byte value (msgByte)
// carrying a deep copy of the message; byte slices, bytes.Buffer, bytes.Reader and
// bufio.Reader move such bytes around like ordinary bytes. The wire format is
// outside every claim; the codec is assumed to round-trip.

import (
	"go/types"

	"golang.org/x/tools/go/ssa"
)

type msgByte struct {
	msg  *value // pointer to a private deep copy of the message struct
	typ  types.Type
	torn bool // a truncated encoding (crash model): decoding yields ErrUnexpectedEOF
	npad int  // number of padByte values that follow (so that len() approximates the size)
}

// padByte fills an encoding up to its stand-in size.
type padByte struct{}

// encode returns the opaque encoding of the message at p.
func (in *Interp) encode(p *value, t types.Type) []value {
	cp := in.deepCopy(p, map[*value]*value{}).(*value)
	n := in.sizeOf(*cp)
	if n < 1 {
		n = 1
	}
	if n > 1<<16 {
		n = 1 << 16
	}
	out := make([]value, n)
	out[0] = msgByte{msg: cp, typ: t, npad: n - 1}
	for i := 1; i < n; i++ {
		out[i] = padByte{}
	}
	return out
}

// deepCopy clones a value graph reachable through pointers, slices and maps.
func (in *Interp) deepCopy(v value, seen map[*value]*value) value {
	switch v := v.(type) {
	case *value:
		if v == nil {
			return v
		}
		if n, ok := seen[v]; ok {
			return n
		}
		n := new(value)
		seen[v] = n
		*n = in.deepCopy(*v, seen)
		return n
	case structure:
		out := make(structure, len(v))
		for i, f := range v {
			out[i] = in.deepCopy(f, seen)
		}
		return out
	case array:
		out := make(array, len(v))
		for i, f := range v {
			out[i] = in.deepCopy(f, seen)
		}
		return out
	case []value:
		if v == nil {
			return v
		}
		out := make([]value, len(v))
		for i, f := range v {
			out[i] = in.deepCopy(f, seen)
		}
		return out
	case *Map:
		if v == nil {
			return v
		}
		out := newMap()
		for _, e := range v.entries {
			if !e.deleted {
				in.mapSet(out, e.key, in.deepCopy(e.val, seen))
			}
		}
		return out
	case iface:
		return iface{t: v.t, v: in.deepCopy(v.v, seen)}
	case msgByte, padByte:
		return v
	}
	return v
}

// protoEqual is structural equality with protobuf conventions (nil == empty).
func (in *Interp) protoEqual(x, y value) *Term {
	tc := in.tc
	switch x := x.(type) {
	case *value:
		yp := y.(*value)
		if x == nil || yp == nil {
			return tc.Bool(x == nil && yp == nil)
		}
		if x == yp {
			return tc.True()
		}
		return in.protoEqual(*x, *yp)
	case structure:
		ys := y.(structure)
		var cs []*Term
		for i := range x {
			cs = append(cs, in.protoEqual(x[i], ys[i]))
		}
		return tc.And(cs...)
	case array:
		ya := y.(array)
		var cs []*Term
		for i := range x {
			cs = append(cs, in.protoEqual(x[i], ya[i]))
		}
		return tc.And(cs...)
	case []value:
		ys := y.([]value)
		if len(x) != len(ys) {
			return tc.False()
		}
		var cs []*Term
		for i := range x {
			cs = append(cs, in.protoEqual(x[i], ys[i]))
		}
		return tc.And(cs...)
	case *Map:
		ym := y.(*Map)
		if x.Len() != ym.Len() {
			return tc.False()
		}
		var cs []*Term
		if x != nil {
			for _, e := range x.entries {
				if e.deleted {
					continue
				}
				o := in.mapFind(ym, e.key, "proto.Equal")
				if o == nil {
					return tc.False()
				}
				cs = append(cs, in.protoEqual(e.val, o.val))
			}
		}
		return tc.And(cs...)
	case iface:
		yi := y.(iface)
		if x.t == nil || yi.t == nil {
			return tc.Bool(x.t == nil && yi.t == nil)
		}
		if !types.Identical(x.t, yi.t) {
			return tc.False()
		}
		return in.protoEqual(x.v, yi.v)
	case msgByte:
		yb, ok := y.(msgByte)
		if !ok {
			return tc.False()
		}
		return in.protoEqual(x.msg, yb.msg)
	case *Term, string, *SymStr, Float:
		return in.equals(nil, x, y)
	case *ssa.Function, *closure, *NativeFunc:
		return tc.True()
	case *Chan, *Opaque, unsafePtr, rtype:
		return tc.True()
	case padByte:
		_, ok := y.(padByte)
		return tc.Bool(ok)
	}
	panic(engineErr("protoEqual: unhandled %T", x))
}

func msgPtr(v value) (*value, types.Type) {
	i, ok := v.(iface)
	if !ok {
		panic(engineErr("proto message is %T", v))
	}
	p, ok := i.v.(*value)
	if !ok {
		panic(engineErr("proto message dynamic value is %T", i.v))
	}
	return p, i.t
}

func (in *Interp) ioErr(name string) value {
	pkg := in.prog.ImportedPackage("io")
	return *in.globalAddr(pkg.Var(name))
}

func registerProto() {
	I := intrinsics
	const P = "google.golang.org/protobuf/proto."
	I[P+"Clone"] = func(in *Interp, fr *frame, fn *ssa.Function, a []value) value {
		i := a[0].(iface)
		if i.t == nil {
			return i
		}
		return iface{t: i.t, v: in.deepCopy(i.v, map[*value]*value{})}
	}
	I[P+"Equal"] = func(in *Interp, fr *frame, fn *ssa.Function, a []value) value {
		x, y := a[0].(iface), a[1].(iface)
		if x.t == nil || y.t == nil {
			return in.tc.Bool(x.t == nil && y.t == nil)
		}
		return in.protoEqual(x.v, y.v)
	}
	I[P+"Size"] = func(in *Interp, fr *frame, fn *ssa.Function, a []value) value {
		if f, ok := in.side["protoSize"].(func(v value) *Term); ok {
			return f(a[0])
		}
		p, _ := msgPtr(a[0])
		k := in.sizeOf(*p)
		return in.i64(int64(k))
	}
	I[P+"Marshal"] = func(in *Interp, fr *frame, fn *ssa.Function, a []value) value {
		p, t := msgPtr(a[0])
		if p == nil {
			return tuple{[]value(nil), iface{}}
		}
		return tuple{in.encode(p, t), iface{}}
	}
	I["("+P[:len(P)-1]+".MarshalOptions).MarshalAppend"] = func(in *Interp, fr *frame, fn *ssa.Function, a []value) value {
		// appends the encoding to the given buffer (in place when it has room, like append)
		b, _ := a[1].([]value)
		p, t := msgPtr(a[2])
		if p == nil {
			return tuple{b, iface{}}
		}
		return tuple{append(b, in.encode(p, t)...), iface{}}
	}
	I[P+"Unmarshal"] = func(in *Interp, fr *frame, fn *ssa.Function, a []value) value {
		b := a[0].([]value)
		p, t := msgPtr(a[1])
		if len(b) == 0 {
			// the empty encoding decodes to the zero message
			*p = in.zero(deref(t))
			return iface{}
		}
		mb, ok := b[0].(msgByte)
		if !ok || mb.torn || !types.Identical(mb.typ, t) || len(b) != 1+mb.npad {
			return in.newErr("proto: cannot parse invalid wire-format data")
		}
		for _, x := range b[1:] {
			if _, isPad := x.(padByte); !isPad {
				return in.newErr("proto: cannot parse invalid wire-format data")
			}
		}
		*p = *(in.deepCopy(mb.msg, map[*value]*value{}).(*value))
		return iface{}
	}
	const D = "google.golang.org/protobuf/encoding/protodelim."
	I[D+"MarshalTo"] = func(in *Interp, fr *frame, fn *ssa.Function, a []value) value {
		w := a[0].(iface)
		p, t := msgPtr(a[1])
		buf := in.encode(p, t)
		m := in.lookupMethodByName(w, "Write")
		r := in.callValue(m, w.v, buf).(tuple)
		return tuple{r[0], r[1]}
	}
	I[D+"UnmarshalFrom"] = func(in *Interp, fr *frame, fn *ssa.Function, a []value) value {
		r := a[0].(iface)
		p, t := msgPtr(a[1])
		m := in.lookupMethodByName(r, "ReadByte")
		res := in.callValue(m, r.v).(tuple)
		if err := res[1].(iface); err.t != nil {
			return err // io.EOF at a message boundary, or the reader's error
		}
		mb, ok := res[0].(msgByte)
		switch {
		case ok && mb.torn:
			return in.ioErr("ErrUnexpectedEOF")
		case !ok || !types.Identical(mb.typ, t):
			return in.newErr("protodelim: malformed message")
		}
		for i := 0; i < mb.npad; i++ {
			res := in.callValue(m, r.v).(tuple)
			if err := res[1].(iface); err.t != nil {
				return in.ioErr("ErrUnexpectedEOF")
			}
			if _, isPad := res[0].(padByte); !isPad {
				return in.newErr("protodelim: malformed message")
			}
		}
		*p = *(in.deepCopy(mb.msg, map[*value]*value{}).(*value))
		return iface{}
	}
}

// sizeOf is a deterministic stand-in for the encoded size: the number of scalar
// leaves plus string lengths. Only monotonicity-free uses (limits) are supported;
// harnesses that need a symbolic size install side["protoSize"].
func (in *Interp) sizeOf(v value) int {
	switch v := v.(type) {
	case *value:
		if v == nil {
			return 0
		}
		return in.sizeOf(*v)
	case structure:
		n := 0
		for _, f := range v {
			n += in.sizeOf(f)
		}
		return n
	case array:
		n := 0
		for _, f := range v {
			n += in.sizeOf(f)
		}
		return n
	case []value:
		n := 0
		for _, f := range v {
			switch f := f.(type) {
			case *Term:
				if f.w == 8 {
					n++ // a byte of a bytes field
					continue
				}
			case msgByte, padByte:
				n++
				continue
			}
			n += in.sizeOf(f)
		}
		return n
	case *Map:
		n := 0
		if v != nil {
			for _, e := range v.entries {
				if !e.deleted {
					n += in.sizeOf(e.key) + in.sizeOf(e.val)
				}
			}
		}
		return n
	case iface:
		if v.t == nil {
			return 0
		}
		return in.sizeOf(v.v)
	case string:
		return len(v) + 1
	case *SymStr:
		return len(v.b) + 1
	case *Term:
		if v.IsConst() && v.c == 0 {
			return 0
		}
		return 2
	}
	return 0
}

func (in *Interp) lookupMethodByName(recv iface, name string) value {
	if recv.t == nil {
		panic(engineErr("method %s on nil interface", name))
	}
	if f := in.prog.LookupMethod(recv.t, nil, name); f != nil {
		return f
	}
	// unexported or promoted through embedding: search method set
	ms := in.prog.MethodSets.MethodSet(recv.t)
	for i := 0; i < ms.Len(); i++ {
		if ms.At(i).Obj().Name() == name {
			return in.prog.MethodValue(ms.At(i))
		}
	}
	panic(engineErr("type %s has no method %s", recv.t, name))
}
