package api

import (
	"net/http"
	"net/url"
	"time"

	"github.com/prometheus/client_golang/prometheus"
)

// hRW18 is a minimal response writer recording the status code.
type hRW18 struct {
	h      http.Header
	status int
}

func (w *hRW18) Header() http.Header {
	if w.h == nil {
		w.h = http.Header{}
	}
	return w.h
}
func (w *hRW18) Write(b []byte) (int, error) {
	if w.status == 0 {
		w.status = 200
	}
	return len(b), nil
}
func (w *hRW18) WriteHeader(code int) { w.status = code }

// VerifC18_GetConcurrency: the GET concurrency limiter in front of the API. 2-4
// requests, each a GET or a POST, arrive while the handler behind the limiter is still
// busy with the earlier ones (every interleaving of the request goroutines). With a
// limit L of 1 or 2: at most L GETs are inside the handler at any time, every GET beyond
// that is answered 503 at once and counted in the limit-exceeded counter, POSTs are never
// refused, and once the handler has let the requests go a new GET is served again.
//
//vf:quick unwind=16 decisions=500 goroutines=10 preempt=1 paths=600000
//vf:thorough unwind=16 decisions=800 goroutines=12 preempt=1 paths=6000000
//vf:expect reach=refused reach=all-served
func VerifC18_GetConcurrency() {
	limit := 1 + vfChoice("limit", 2)
	exceeded := prometheus.NewCounter(prometheus.CounterOpts{Name: "exceeded"})
	api := &API{
		inFlightSem:              make(chan struct{}, limit),
		requestsInFlight:         prometheus.NewGauge(prometheus.GaugeOpts{Name: "inflight"}),
		concurrencyLimitExceeded: exceeded,
	}
	gate := make(chan struct{})
	getsInside, maxGetsInside, served := 0, 0, 0
	inner := http.HandlerFunc(func(w http.ResponseWriter, r *http.Request) {
		if r.Method == http.MethodGet {
			getsInside++
			if getsInside > maxGetsInside {
				maxGetsInside = getsInside
			}
		}
		<-gate // busy until released
		if r.Method == http.MethodGet {
			getsInside--
		}
		served++
		w.WriteHeader(200)
	})
	h := api.limitHandler(inner)
	n := 2 + vfChoice("requests", 2)
	ws := make([]*hRW18, n)
	isGet := make([]bool, n)
	done := make(chan struct{}, n)
	nGet := 0
	for i := 0; i < n; i++ {
		i := i
		isGet[i] = vfBool("isGET")
		method := http.MethodPost
		if isGet[i] {
			method = http.MethodGet
			nGet++
		}
		ws[i] = &hRW18{}
		req := &http.Request{Method: method, URL: &url.URL{Path: "/api/v2/alerts"}}
		vfGo("request", func() {
			h.ServeHTTP(ws[i], req)
			done <- struct{}{}
		})
	}
	vfAdvance(time.Second) // every request is now either answered or inside the handler
	refused := 0
	for i := 0; i < n; i++ {
		if ws[i].status == http.StatusServiceUnavailable {
			refused++
			vfAssert("only-GETs-are-refused", isGet[i])
		} else {
			vfAssert("not-answered-while-the-handler-is-busy", ws[i].status == 0)
		}
	}
	wantRefused := 0
	if nGet > limit {
		wantRefused = nGet - limit
	}
	vfAssert("GETs-beyond-the-limit-are-refused-at-once", refused == wantRefused)
	vfAssert("at-most-limit-GETs-inside", maxGetsInside <= limit)
	vfAssert("every-refusal-is-counted", vfCounter(exceeded) == refused)
	close(gate)
	for i := 0; i < n; i++ {
		<-done
	}
	vfAssert("everything-not-refused-was-served", served == n-refused)
	// the slots are free again
	w := &hRW18{}
	h.ServeHTTP(w, &http.Request{Method: http.MethodGet, URL: &url.URL{Path: "/api/v2/alerts"}})
	vfAssert("served-again-after-release", w.status == 200)
	if refused > 0 {
		vfReach("refused")
	} else {
		vfReach("all-served")
	}
}
