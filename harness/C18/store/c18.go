package store

import (
	"fmt"
	"time"

	"github.com/prometheus/common/model"

	"github.com/prometheus/alertmanager/types"
)

func hAlert18(name string, inst int, start, end time.Time) *types.Alert {
	a := &types.Alert{}
	a.Labels = model.LabelSet{"alertname": model.LabelValue(name), "instance": model.LabelValue(fmt.Sprintf("i%d", inst))}
	a.StartsAt = start
	a.EndsAt = end
	a.UpdatedAt = start
	return a
}

type hState18 struct {
	a        *Alerts
	n        int
	admitted map[int]bool // instance -> admitted at least once and never refused since
}

// unexpired counts stored alerts named "hot" whose end is strictly after now.
func (h *hState18) unexpired(now time.Time) int {
	c := 0
	for _, al := range h.a.alerts {
		if al.Name() == "hot" {
			c += vfIteInt(al.EndsAt.After(now), 1, 0) // branch-free: one term, no fork
		}
	}
	return c
}

func (h *hState18) set(inst int, endIn time.Duration) {
	now := vfNow()
	fp := hAlert18("hot", inst, now, now).Fingerprint()
	prev, had := h.a.alerts[fp]
	wasLive := had && h.admitted[inst] && prev.EndsAt.After(now)
	al := hAlert18("hot", inst, now, now.Add(endIn))
	err := h.a.Set(al)
	vfAssert("refusal-is-reported", err == nil || err == ErrLimited)
	if wasLive {
		vfAssert("resend-of-admitted-always-accepted", err == nil)
		vfReach("resend")
	}
	if err == nil {
		h.admitted[inst] = true
		vfReach("admitted")
	} else {
		vfReach("limited")
	}
	vfAssert("limit-holds", h.unexpired(now) <= h.n)
}

// VerifC18_AlertLimit: histories of submissions, heartbeats, expiries and GC under a
// per-alert-name limit N in 1..3: the number of distinct unexpired alerts of one name
// never exceeds N, re-sends of admitted alerts are accepted, refusals are reported as
// ErrLimited, GC removes only resolved alerts and an alert of another name is
// unaffected.
//
//vf:quick unwind=24 decisions=400 paths=300000
//vf:thorough unwind=32 decisions=600 paths=3000000
//vf:expect reach=admitted reach=limited reach=resend reach=gc
func VerifC18_AlertLimit() {
	n := 1 + vfChoice("limit", 3)
	h := &hState18{a: NewAlerts().WithPerAlertLimit(n), n: n, admitted: map[int]bool{}}
	// phase 1: fill with distinct alerts (one more than the limit allows)
	for i := 0; i < n; i++ {
		h.set(i, vfSeconds("end", 1, 3600))
	}
	if vfBool("overfill") {
		h.set(n, vfSeconds("end", 1, 3600))
	}
	// another alert name lives in its own bucket
	now := vfNow()
	vfAssert("other-name-unaffected", h.a.Set(hAlert18("cold", 0, now, now.Add(time.Hour))) == nil)
	// 1 (quick) / 2 (thorough) rounds of: time passes, maybe a GC, an optional heartbeat
	// of an admitted alert, then fresh alerts (new alerts are interchangeable, so their
	// identities are fixed)
	for round := 0; round <= vfTier(); round++ {
		vfAdvance(vfSeconds("advance", 0, 7200))
		if vfBool("gc") {
			now = vfNow()
			before := map[model.Fingerprint]*types.Alert{}
			for fp, al := range h.a.alerts {
				before[fp] = al
			}
			deleted := h.a.GC()
			for _, d := range deleted {
				vfAssert("gc-removes-only-resolved", !d.EndsAt.After(now))
			}
			for fp, al := range before {
				_, ok := h.a.alerts[fp]
				vfAssert("gc-keeps-unexpired", vfImplies(al.EndsAt.After(now), ok))
			}
			vfReach("gc")
		}
		// an optional re-send of an alert admitted at the start (it may have expired in the
		// meantime and, without a GC, still sit in the store), before or after the fresh ones
		hb := round == 0 && vfBool("heartbeat") // (the second round of the thorough tier has no re-send)
		hbLast := hb && vfBool("heartbeatAfterFresh")
		if hb && !hbLast {
			h.set(vfChoice("heartbeatOf", 1+vfTier()), vfSeconds("end", 1, 3600))
		}
		extra := n
		if round > 0 {
			extra = 1
		}
		for j := 0; j < extra; j++ {
			h.set(10+10*round+j, vfSeconds("end", 1, 3600))
		}
		if hb && hbLast {
			h.set(vfChoice("heartbeatOf", 1+vfTier()), vfSeconds("end", 1, 3600))
		}
	}
}
