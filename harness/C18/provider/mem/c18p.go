package mem

import (
	"context"
	"fmt"
	"time"

	"github.com/prometheus/client_golang/prometheus"
	"github.com/prometheus/common/model"
	"github.com/prometheus/common/promslog"

	"github.com/prometheus/alertmanager/eventrecorder"
	"github.com/prometheus/alertmanager/types"
)

// VerifC18_ProviderRefusals: the per-alert-name limit seen from the provider, where a
// refusal cannot be an error response and has to be counted. With limit 1 or 2, a
// history of submissions of alerts of one name (new ones, re-sends of earlier ones that
// may have expired in the meantime, no GC in between) at arbitrary instants: after every
// Put the submitted version is either stored (possibly merged) or the limited-alerts counter
// went up by one: a refusal is never silent, whatever the store still holds.
//
//vf:quick unwind=24 decisions=400 paths=600000
//vf:thorough unwind=24 decisions=600 paths=6000000
//vf:expect reach=admitted reach=refused-and-counted
func VerifC18_ProviderRefusals() {
	ctx, cancel := context.WithCancel(context.Background())
	defer cancel()
	limit := 1 + vfChoice("limit", 2)
	a, err := NewAlerts(ctx, 100000*time.Hour, limit, nil, promslog.NewNopLogger(), eventrecorder.Recorder{}, prometheus.NewRegistry(), nil)
	if err != nil {
		panic(err)
	}
	steps := 4
	for s := 0; s < steps; s++ {
		vfAdvance(vfSeconds("advance", 1, 3600))
		now := vfNow()
		inst := vfChoice("instance", 3)
		al := &types.Alert{}
		al.Labels = model.LabelSet{"alertname": "hot", "instance": model.LabelValue(fmt.Sprintf("i%d", inst))}
		al.StartsAt, al.UpdatedAt = now, now
		al.EndsAt = now.Add(vfSeconds("endIn", 1, 1800))
		before := vfCounter(a.alertsLimitedTotal.WithLabelValues())
		vfAssert("put-ok", a.Put(ctx, al) == nil)
		after := vfCounter(a.alertsLimitedTotal.WithLabelValues())
		got, gerr := a.Get(al.Fingerprint())
		stored := gerr == nil && got.UpdatedAt.Equal(now) // (a merge with an overlapping earlier version keeps the newer update time)
		if stored {
			vfAssert("admitted-alert-is-not-counted-as-limited", after == before)
			vfReach("admitted")
		} else {
			vfAssert("refusal-is-counted", after == before+1)
			vfReach("refused-and-counted")
		}
	}
}
