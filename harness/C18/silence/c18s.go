package silence

import (
	"context"
	"google.golang.org/protobuf/proto"
	"time"

	"github.com/prometheus/client_golang/prometheus"
	"google.golang.org/protobuf/types/known/timestamppb"

	pb "github.com/prometheus/alertmanager/silence/silencepb"
)

type hSnap18 struct {
	start, end, upd time.Time
	comment         string
}

func hSnapshot18(s *Silences) map[string]hSnap18 {
	m := map[string]hSnap18{}
	for id, ms := range s.st {
		m[id] = hSnap18{ms.Silence.StartsAt.AsTime(), ms.Silence.EndsAt.AsTime(), ms.Silence.UpdatedAt.AsTime(), ms.Silence.Comment}
	}
	return m
}

func hUnchanged18(before map[string]hSnap18, s *Silences) bool {
	if len(before) != len(s.st) || len(s.st) != len(s.mi) || len(s.st) != len(s.vi) {
		return false
	}
	for id, b := range before {
		ms, ok := s.st[id]
		if !ok {
			return false
		}
		x := ms.Silence
		if !x.StartsAt.AsTime().Equal(b.start) || !x.EndsAt.AsTime().Equal(b.end) || !x.UpdatedAt.AsTime().Equal(b.upd) || x.Comment != b.comment {
			return false
		}
	}
	return true
}

// VerifC18_SilenceLimits: creating or editing silences through Set never brings the
// number of stored silences (expired ones included) above MaxSilences nor stores a
// silence above MaxSilenceSizeBytes, and a rejected create or edit (in place or
// replacing) leaves every existing silence, and the indexes, untouched.
//
//vf:bounds unwind=16 decisions=300
//vf:expect reach=count-refused reach=size-refused reach=accepted reach=replaced reach=edited
func VerifC18_SilenceLimits() {
	maxN := vfChoice("max", 3) // 0 = unlimited
	sizeLim := []int{0, 1, 1 << 30}[vfChoice("size", 3)]
	s, err := New(Options{
		Retention: time.Hour,
		Metrics:   prometheus.NewRegistry(),
		Limits: Limits{
			MaxSilences:         func() int { return maxN },
			MaxSilenceSizeBytes: func() int { return sizeLim },
		},
	})
	if err != nil {
		panic(err)
	}
	ctx := context.Background()
	mk := func(val, comment string) *pb.Silence {
		now := vfNow()
		return &pb.Silence{
			MatcherSets: []*pb.MatcherSet{{Matchers: []*pb.Matcher{{Type: pb.Matcher_EQUAL, Name: "job", Pattern: val}}}},
			StartsAt:    timestamppb.New(now),
			EndsAt:      timestamppb.New(now.Add(time.Hour + vfSeconds("len", 0, 3600))),
			Comment:     comment,
		}
	}
	after := func(op string, before map[string]hSnap18, err error) {
		if err != nil {
			vfAssert("rejected-leaves-state-untouched", hUnchanged18(before, s))
		}
		if maxN > 0 && len(before) <= maxN {
			vfAssert("count-limit-holds", len(s.st) <= maxN)
		}
		if sizeLim == 1 {
			vfAssert("oversize-never-stored", err != nil && len(s.st) == len(before))
		}
	}
	var first *pb.Silence
	for i, v := range []string{"a", "b", "c"} {
		before := hSnapshot18(s)
		sil := mk(v, "created")
		err := s.Set(ctx, sil)
		after("create", before, err)
		switch {
		case err == nil:
			vfReach("accepted")
			if first == nil {
				first = sil
			}
		case sizeLim == 1:
			vfReach("size-refused")
		default:
			vfReach("count-refused")
			vfAssert("count-refusal-only-when-full", maxN > 0 && len(before)+1 > maxN)
		}
		_ = i
	}
	if first == nil {
		return
	}
	vfAdvance(vfSeconds("advance", 1, 1800))
	// in-place edit (comment and end only): never needs room
	{
		before := hSnapshot18(s)
		ed := cloneSilence(first)
		ed.Comment = "edited"
		ed.EndsAt = timestamppb.New(vfNow().Add(time.Hour))
		err := s.Set(ctx, ed)
		after("edit", before, err)
		if err == nil {
			vfAssert("in-place-keeps-id-and-count", ed.Id == first.Id && len(s.st) == len(before))
			vfReach("edited")
		}
	}
	// replacing edit (different matchers): needs room for one more silence
	{
		before := hSnapshot18(s)
		ed := cloneSilence(first)
		ed.MatcherSets = []*pb.MatcherSet{{Matchers: []*pb.Matcher{{Type: pb.Matcher_EQUAL, Name: "job", Pattern: "z"}}}}
		err := s.Set(ctx, ed)
		after("replace", before, err)
		if err == nil {
			vfAssert("replace-creates-new-id", ed.Id != first.Id && len(s.st) == len(before)+1)
			vfReach("replaced")
		}
	}
}

// VerifC18_SilenceSizeBoundary: the size limit is placed at an arbitrary distance
// around the encoded size of the submitted silence. Whatever Set decides, a silence
// that ends up stored is never larger than the limit (the stored form carries the id
// and the update time, which the submitted form lacks), and a refusal stores nothing.
//
//vf:bounds unwind=12 decisions=200
//vf:expect reach=stored reach=refused
//vf:novalidate the engine measures a stand-in size, so which side of the limit a passing path falls on differs natively (counterexamples are still replayed)
//vf:note encoded sizes are a stand-in in the engine (field counts and string lengths); the limit is expressed relative to the measured size so that witnesses replay natively
func VerifC18_SilenceSizeBoundary() {
	limit := 0
	s, err := New(Options{
		Retention: time.Hour,
		Metrics:   prometheus.NewRegistry(),
		Limits:    Limits{MaxSilenceSizeBytes: func() int { return limit }},
	})
	if err != nil {
		panic(err)
	}
	now := vfNow()
	sil := &pb.Silence{
		MatcherSets: []*pb.MatcherSet{{Matchers: []*pb.Matcher{{Type: pb.Matcher_EQUAL, Name: "job", Pattern: "a"}}}},
		StartsAt:    timestamppb.New(now),
		EndsAt:      timestamppb.New(now.Add(time.Hour)),
		Comment:     "a comment",
	}
	base := proto.Size(s.toMeshSilence(sil))
	limit = base + vfIntRange("slack", -40, 120)
	vfAssume(limit > 0)
	serr := s.Set(context.Background(), sil)
	if serr != nil {
		vfAssert("refusal-stores-nothing", len(s.st) == 0)
		vfReach("refused")
		return
	}
	vfReach("stored")
	for _, ms := range s.st {
		vfAssert("stored-silence-within-size-limit", proto.Size(ms) <= limit)
	}
}
