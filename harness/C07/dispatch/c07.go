package dispatch

import (
	"fmt"
	"time"

	"github.com/prometheus/common/model"

	"github.com/prometheus/alertmanager/config"
	"github.com/prometheus/alertmanager/pkg/labels"
)

// tree shapes as parent arrays (node 0 is the root); children keep index order
var hShapes07 = [][]int{
	{-1},
	{-1, 0},
	{-1, 0, 0},
	{-1, 0, 0, 0},
	{-1, 0, 1},
	{-1, 0, 0, 1},
	{-1, 0, 0, 2},
	{-1, 0, 1, 2},
	{-1, 0, 0, 1, 1},
	{-1, 0, 0, 1, 2},
	{-1, 0, 1, 1, 0},
	{-1, 0, 1, 2, 0},
	{-1, 0, 0, 0, 2},
}

// hAllShapes07 enumerates every ordered rooted tree with up to maxN nodes as parent
// arrays in preorder numbering (the parent of node i is node i-1 or one of its
// ancestors): 1, 1, 2, 5, 14, 42, 132 trees with 1..7 nodes.
func hAllShapes07(maxN int) [][]int {
	var out [][]int
	var rec func(cur []int)
	rec = func(cur []int) {
		out = append(out, append([]int(nil), cur...))
		if len(cur) == maxN {
			return
		}
		// candidates: the last node and its ancestors
		for p := len(cur) - 1; p >= 0; p = cur[p] {
			rec(append(cur, p))
		}
	}
	rec([]int{-1})
	return out
}

type hNode07 struct {
	id       int
	cont     bool
	children []*hNode07
}

// hRef07 is the routing rule restated from the property text.
func hRef07(n *hNode07, m []bool) []int {
	if !m[n.id] {
		return nil
	}
	var all []int
	for _, c := range n.children {
		r := hRef07(c, m)
		all = append(all, r...)
		if len(r) > 0 && !c.cont {
			break
		}
	}
	if len(all) == 0 {
		all = []int{n.id}
	}
	return all
}

// VerifC07_Match: for 9 tree shapes up to 5 nodes (quick) / all 197 ordered trees with
// up to 7 nodes (thorough), every assignment of
// "this node's matchers hold" and every assignment of continue flags, Route.Match on
// the tree built by NewRoute returns exactly the reference list, in depth-first
// order, and never an empty list.
//
//vf:quick unwind=12 decisions=200
//vf:thorough unwind=16 decisions=300 paths=2000000
//vf:expect reach=root-only reach=several reach=leaf
func VerifC07_Match() {
	shapes := hShapes07[:9]
	if vfTier() > 0 {
		shapes = hAllShapes07(7) // all 197 ordered trees with up to 7 nodes
	}
	shape := shapes[vfChoice("shape", len(shapes))]
	n := len(shape)
	crs := make([]*config.Route, n)
	nodes := make([]*hNode07, n)
	mvals := make([]string, n)
	lset := model.LabelSet{"alertname": "x"}
	for i := 0; i < n; i++ {
		crs[i] = &config.Route{}
		nodes[i] = &hNode07{id: i}
		if i == 0 {
			crs[i].Receiver = "root"
			continue
		}
		ln := fmt.Sprintf("l%d", i)
		// node i asks for l_i = "1" or for l_i = "" (the idiom for "label not set")
		mval := "1"
		if i == 1 { // (the first child; kept small for the big trees)
			if vfBool("matchesUnset") {
				mval = ""
			}
		}
		mvals[i] = mval
		mt, err := labels.NewMatcher(labels.MatchEqual, ln, mval)
		if err != nil {
			panic(err)
		}
		crs[i].Matchers = append(crs[i].Matchers, mt)
		// the label is absent, or its value is one symbolic byte: "does node i match"
		// is symbolic
		if i > 1+(1-vfTier()) || !vfBool("labelAbsent") { // (quick: nodes 1-2, thorough: node 1)
			lset[model.LabelName(ln)] = model.LabelValue(vfString("v", 1))
		}
		if vfBool("continue") {
			crs[i].Continue = true
			nodes[i].cont = true
		}
		p := shape[i]
		crs[p].Routes = append(crs[p].Routes, crs[i])
		nodes[p].children = append(nodes[p].children, nodes[i])
	}
	root := NewRoute(crs[0], nil)
	// map built routes back to node ids (preorder of config = preorder of routes)
	byRoute := map[*Route]int{}
	var walk func(r *Route, cn *hNode07)
	walk = func(r *Route, cn *hNode07) {
		byRoute[r] = cn.id
		for k, c := range r.Routes {
			walk(c, cn.children[k])
		}
	}
	walk(root, nodes[0])

	got := root.Match(lset)

	m := make([]bool, n)
	m[0] = true
	for i := 1; i < n; i++ {
		m[i] = string(lset[model.LabelName(fmt.Sprintf("l%d", i))]) == mvals[i] // an absent label reads as ""
	}
	want := hRef07(nodes[0], m)
	vfAssert("never-empty", len(got) > 0)
	vfAssert("same-length", len(got) == len(want))
	for k := range want {
		if k < len(got) {
			vfAssert("same-route-same-order", byRoute[got[k]] == want[k])
		}
	}
	switch {
	case len(got) == 1 && got[0] == root:
		vfReach("root-only")
	case len(got) > 1:
		vfReach("several")
	default:
		vfReach("leaf")
	}
}

// VerifC07_Inherit: receiver, group_by, group_wait, group_interval, repeat_interval
// and labels of every node equal its own setting if set, else its parent's (defaults
// at the root); labels are merged with the child winning and the parent's map is not
// mutated; route indices are unique.
//
//vf:bounds unwind=12 decisions=120
//vf:expect reach=checked
func VerifC07_Inherit() {
	type prof struct{ recv, gb, gbAll, gbEmpty, timers, lbl bool }
	profiles := []prof{
		{},
		{recv: true, gb: true, timers: true, lbl: true},
		{recv: true},
		{gb: true},
		{gbAll: true},
		{gbEmpty: true},
		{timers: true},
		{lbl: true},
		{gb: true, lbl: true},
	}
	mk := func(level int, p prof) *config.Route {
		cr := &config.Route{}
		if p.recv {
			cr.Receiver = fmt.Sprintf("recv%d", level)
		}
		if p.gb {
			cr.GroupBy = []model.LabelName{model.LabelName(fmt.Sprintf("g%d", level)), "shared"}
		}
		if p.gbEmpty {
			cr.GroupBy = []model.LabelName{}
		}
		if p.gbAll {
			cr.GroupByAll = true
		}
		if p.timers {
			gw := model.Duration(vfSeconds("gw", 0, 86400))
			gi := model.Duration(vfSeconds("gi", 1, 86400))
			ri := model.Duration(vfSeconds("ri", 1, 30*86400))
			cr.GroupWait, cr.GroupInterval, cr.RepeatInterval = &gw, &gi, &ri
		}
		if p.lbl {
			cr.Labels = model.LabelSet{"team": model.LabelValue(fmt.Sprintf("t%d", level)), model.LabelName(fmt.Sprintf("only%d", level)): "y"}
		}
		return cr
	}
	p0 := profiles[1]
	p1 := profiles[vfChoice("p1", len(profiles))]
	p2 := profiles[vfChoice("p2", len(profiles))]
	c0, c1, c2 := mk(0, p0), mk(1, p1), mk(2, p2)
	sib := mk(3, profiles[0])
	c1.Routes = []*config.Route{c2}
	c0.Routes = []*config.Route{c1, sib}
	root := NewRoute(c0, nil)
	r1 := root.Routes[0]
	r2 := r1.Routes[0]
	rs := root.Routes[1]

	// expected options, computed top-down from the property's rule
	type eff struct {
		recv       string
		gb         []model.LabelName
		gbAll      bool
		gw, gi, ri time.Duration
		labels     model.LabelSet
	}
	apply := func(parent eff, cr *config.Route) eff {
		e := parent
		if cr.Receiver != "" {
			e.recv = cr.Receiver
		}
		if cr.GroupBy != nil {
			e.gb, e.gbAll = cr.GroupBy, false
		} else if cr.GroupByAll {
			e.gbAll = true
		}
		if cr.GroupWait != nil {
			e.gw = time.Duration(*cr.GroupWait)
		}
		if cr.GroupInterval != nil {
			e.gi = time.Duration(*cr.GroupInterval)
		}
		if cr.RepeatInterval != nil {
			e.ri = time.Duration(*cr.RepeatInterval)
		}
		if len(cr.Labels) > 0 {
			ml := model.LabelSet{}
			for k, v := range parent.labels {
				ml[k] = v
			}
			for k, v := range cr.Labels {
				ml[k] = v
			}
			e.labels = ml
		}
		return e
	}
	def := eff{gw: DefaultRouteOpts.GroupWait, gi: DefaultRouteOpts.GroupInterval, ri: DefaultRouteOpts.RepeatInterval, labels: model.LabelSet{}}
	e0 := apply(def, c0)
	e1 := apply(e0, c1)
	e2 := apply(e1, c2)
	es := apply(e0, sib)
	check := func(r *Route, e eff) {
		o := r.RouteOpts
		vfAssert("receiver-inherited", o.Receiver == e.recv)
		vfAssert("timers-inherited", o.GroupWait == e.gw && o.GroupInterval == e.gi && o.RepeatInterval == e.ri)
		vfAssert("group-by-all-inherited", o.GroupByAll == e.gbAll)
		same := len(o.GroupBy) == len(e.gb)
		for _, ln := range e.gb {
			if _, ok := o.GroupBy[ln]; !ok {
				same = false
			}
		}
		vfAssert("group-by-inherited", same)
		ls := len(o.Labels) == len(e.labels)
		for k, v := range e.labels {
			if o.Labels[k] != v {
				ls = false
			}
		}
		vfAssert("labels-merged", ls)
	}
	check(root, e0)
	check(r1, e1)
	check(r2, e2)
	check(rs, es)
	// a child's labels never leak into the parent or a sibling
	vfAssert("parent-labels-not-mutated", len(root.RouteOpts.Labels) == 2 && root.RouteOpts.Labels["team"] == "t0")
	idx := map[int]bool{root.Idx: true, r1.Idx: true, r2.Idx: true, rs.Idx: true}
	vfAssert("indices-unique", len(idx) == 4)
	vfAssert("always-a-receiver", r2.RouteOpts.Receiver != "" && rs.RouteOpts.Receiver != "")
	vfReach("checked")
}
