package v2

import (
	"context"
	"net/http"
	"net/url"
	"time"

	"github.com/go-openapi/strfmt"
	"github.com/prometheus/client_golang/prometheus"
	"github.com/prometheus/common/model"
	"github.com/prometheus/common/promslog"

	"github.com/prometheus/alertmanager/api/metrics"
	open_api_models "github.com/prometheus/alertmanager/api/v2/models"
	alert_ops "github.com/prometheus/alertmanager/api/v2/restapi/operations/alert"
	"github.com/prometheus/alertmanager/config"
	amcommoncfg "github.com/prometheus/alertmanager/config/common"
	"github.com/prometheus/alertmanager/dispatch"
	"github.com/prometheus/alertmanager/eventrecorder"
	"github.com/prometheus/alertmanager/marker"
	"github.com/prometheus/alertmanager/pkg/labels"
	"github.com/prometheus/alertmanager/provider"
	"github.com/prometheus/alertmanager/provider/mem"
	"github.com/prometheus/alertmanager/types"
)

type hProvider13 struct {
	provider.Alerts
	put []*types.Alert
}

func (p *hProvider13) Put(_ context.Context, as ...*types.Alert) error {
	p.put = append(p.put, as...)
	return nil
}

// VerifC13_PostDefaults: POST /api/v2/alerts with a batch of 1-3 alerts, each with or
// without start/end, with valid, empty-valued or no labels. Every valid alert reaches
// the store even if others are rejected; start defaults to end or to the receive time,
// end defaults to receive time + resolve_timeout (marked as timeout); empty-valued
// labels are dropped; the response is 400 iff some alert was invalid.
//
//vf:bounds unwind=12 decisions=300
//vf:expect reach=all-valid reach=some-invalid reach=timeout-set reach=start-from-end
func VerifC13_PostDefaults() {
	prov := &hProvider13{}
	rt := vfSeconds("resolveTimeout", 1, 3600)
	api := &API{
		alerts:             prov,
		logger:             promslog.NewNopLogger(),
		m:                  metrics.NewAlerts(prometheus.NewRegistry()),
		alertmanagerConfig: &config.Config{Global: &config.GlobalConfig{ResolveTimeout: model.Duration(rt)}},
	}
	vfAdvance(vfSeconds("t", 0, 86400))
	now := vfNow()
	base := time.Unix(946684800, 0).UTC()
	n := 1 + vfChoice("batch", 2+vfTier())
	var batch open_api_models.PostableAlerts
	type exp struct {
		valid      bool
		start, end time.Time
		timeout    bool
	}
	var want []exp
	invalid := 0
	for i := 0; i < n; i++ {
		pa := &open_api_models.PostableAlert{}
		var e exp
		switch vfChoice("labels", 4) {
		case 0:
			pa.Labels = open_api_models.LabelSet{"alertname": "A", "empty": ""}
			e.valid = true
		case 1:
			pa.Labels = open_api_models.LabelSet{"alertname": "", "instance": ""} // nothing left after dropping empty values
		case 2:
			pa.Labels = open_api_models.LabelSet{"alertname": "B"}
			e.valid = true
		case 3:
			// an empty-valued label is dropped before validation, whatever its name
			pa.Labels = open_api_models.LabelSet{"alertname": "C", "": ""}
			e.valid = true
		}
		hasStart, hasEnd := vfBool("hasStart"), vfBool("hasEnd")
		var st, en time.Time
		if hasStart {
			st = base.Add(vfSeconds("start", 1, 2*86400))
			pa.StartsAt = strfmt.DateTime(st)
		}
		if hasEnd {
			en = base.Add(vfSeconds("end", 1, 3*86400))
			pa.EndsAt = strfmt.DateTime(en)
		}
		switch {
		case hasStart:
			e.start = st
		case hasEnd:
			e.start = en
			vfReach("start-from-end")
		default:
			e.start = now
		}
		if hasEnd {
			e.end = en
		} else {
			e.end, e.timeout = now.Add(rt), true
			vfReach("timeout-set")
		}
		if e.end.Before(e.start) {
			e.valid = false // end before start is rejected
		}
		if !e.valid {
			invalid++
		}
		want = append(want, e)
		batch = append(batch, pa)
	}
	resp := api.postAlertsHandler(alert_ops.PostAlertsParams{
		HTTPRequest: &http.Request{Method: "POST", URL: &url.URL{Path: "/api/v2/alerts"}},
		Alerts:      batch,
	})
	_, isOK := resp.(*alert_ops.PostAlertsOK)
	_, isBad := resp.(*alert_ops.PostAlertsBadRequest)
	vfAssert("400-iff-some-invalid", isBad == (invalid > 0) && isOK == (invalid == 0))
	if invalid > 0 {
		vfReach("some-invalid")
	} else {
		vfReach("all-valid")
	}
	vfAssert("every-valid-alert-stored", len(prov.put) == n-invalid)
	k := 0
	for _, e := range want {
		if !e.valid || k >= len(prov.put) {
			continue
		}
		got := prov.put[k]
		k++
		vfAssert("start-default", got.StartsAt.Equal(e.start))
		vfAssert("end-default", got.EndsAt.Equal(e.end) && got.Timeout == e.timeout)
		vfAssert("updated-at-receive-time", got.UpdatedAt.Equal(now))
		_, hasEmpty := got.Labels["empty"]
		vfAssert("empty-labels-removed", !hasEmpty && len(got.Labels) == 1)
	}
}

// VerifC13_GetAlerts: POST then GET through the real handlers over the real in-memory
// provider and a real routing tree. 2 (quick) / 3 (thorough) alerts are submitted with
// explicit or defaulted end times, time passes, and GET /api/v2/alerts is asked with
// every combination of the active / silenced / inhibited switches. The answer lists
// exactly the stored alerts whose end has not passed and whose suppression status
// passes the switches, each once, in fingerprint order, with the stored times, the
// receivers the routing tree selects and the status the silencer / inhibitor report.
//
//vf:quick unwind=16 decisions=400 paths=400000
//vf:thorough unwind=16 decisions=600 paths=4000000
//vf:expect reach=listed reach=expired-hidden reach=filtered-by-status
func VerifC13_GetAlerts() {
	ctx, cancel := context.WithCancel(context.Background())
	defer cancel()
	prov, err := mem.NewAlerts(ctx, 100000*time.Hour, 0, nil, promslog.NewNopLogger(), eventrecorder.Recorder{}, prometheus.NewRegistry(), nil)
	if err != nil {
		panic(err)
	}
	mm := func(n, v string) *labels.Matcher {
		x, err := labels.NewMatcher(labels.MatchEqual, n, v)
		if err != nil {
			panic(err)
		}
		return x
	}
	route := dispatch.NewRoute(&config.Route{
		Receiver: "default",
		Routes: []*config.Route{
			{Receiver: "team-a", Matchers: amcommoncfg.Matchers{mm("team", "a")}, Continue: true},
			{Receiver: "ops", Matchers: amcommoncfg.Matchers{mm("sev", "high")}},
		},
	}, nil)
	rt := 5 * time.Minute
	api := &API{
		alerts:             prov,
		logger:             promslog.NewNopLogger(),
		m:                  metrics.NewAlerts(prometheus.NewRegistry()),
		alertmanagerConfig: &config.Config{Global: &config.GlobalConfig{ResolveTimeout: model.Duration(rt)}},
		route:              route,
		// what the silencer and the inhibitor do: report through the marker in the context
		setAlertStatus: func(ctx context.Context, lset model.LabelSet) {
			m, ok := marker.FromContext(ctx)
			if !ok {
				return
			}
			if lset["sil"] == "1" {
				m.SetSilenced(lset.Fingerprint(), []string{"silence-1"})
			} else {
				m.SetSilenced(lset.Fingerprint(), nil)
			}
			if lset["inh"] == "1" {
				m.SetInhibited(lset.Fingerprint(), []string{"source-1"})
			} else {
				m.SetInhibited(lset.Fingerprint(), nil)
			}
		},
	}
	pool := []open_api_models.LabelSet{
		{"alertname": "A", "team": "a", "sev": "high"},
		{"alertname": "B", "team": "b", "sil": "1"},
		{"alertname": "C", "team": "a", "inh": "1", "sil": "1"},
	}
	wantRecv := [][]string{{"team-a", "ops"}, {"default"}, {"team-a"}}
	n := 2 + vfTier()
	t0 := vfNow()
	type sub struct {
		start    time.Time
		end      time.Time
		sil, inh bool
		fp       string
	}
	subs := make([]sub, n)
	var batch open_api_models.PostableAlerts
	for i := 0; i < n; i++ {
		pa := &open_api_models.PostableAlert{}
		pa.Labels = pool[i]
		if vfBool("explicitEnd") {
			// an end without a start: the start defaults to the end
			subs[i].end = t0.Add(vfSeconds("endIn", 1, 3600))
			subs[i].start = subs[i].end
			pa.EndsAt = strfmt.DateTime(subs[i].end)
		} else {
			subs[i].start, subs[i].end = t0, t0.Add(rt)
		}
		subs[i].sil, subs[i].inh = pool[i]["sil"] == "1", pool[i]["inh"] == "1"
		ls := model.LabelSet{}
		for k, v := range pool[i] {
			ls[model.LabelName(k)] = model.LabelValue(v)
		}
		subs[i].fp = ls.Fingerprint().String()
		batch = append(batch, pa)
	}
	req := &http.Request{Method: "POST", URL: &url.URL{Path: "/api/v2/alerts"}}
	_, isOK := api.postAlertsHandler(alert_ops.PostAlertsParams{HTTPRequest: req, Alerts: batch}).(*alert_ops.PostAlertsOK)
	vfAssert("post-ok", isOK)

	vfAdvance(vfSeconds("later", 0, 2*3600))
	now := vfNow()
	for i := range subs {
		vfAssume(!subs[i].end.Equal(now)) // the single instant end == now is left open
	}
	active, silenced, inhibited := vfBool("active"), vfBool("silenced"), vfBool("inhibited")
	resp := api.getAlertsHandler(alert_ops.GetAlertsParams{
		HTTPRequest: &http.Request{Method: "GET", URL: &url.URL{Path: "/api/v2/alerts"}},
		Active:      &active, Silenced: &silenced, Inhibited: &inhibited,
	})
	ok, isGetOK := resp.(*alert_ops.GetAlertsOK)
	vfAssert("get-ok", isGetOK)
	if !isGetOK {
		return
	}
	got := ok.Payload
	want := 0
	for i, s := range subs {
		suppressed := s.sil || s.inh
		show := s.end.After(now) && (active || suppressed) && (silenced || !s.sil) && (inhibited || !s.inh)
		var found *open_api_models.GettableAlert
		cnt := 0
		for _, g := range got {
			if *g.Fingerprint == s.fp {
				found = g
				cnt++
			}
		}
		if !show {
			vfAssert("hidden-alert-not-listed", cnt == 0)
			if !s.end.After(now) {
				vfReach("expired-hidden")
			} else {
				vfReach("filtered-by-status")
			}
			continue
		}
		want++
		vfAssert("listed-exactly-once", cnt == 1)
		if found == nil {
			continue
		}
		vfReach("listed")
		vfAssert("stored-times", time.Time(*found.EndsAt).Equal(s.end) && time.Time(*found.StartsAt).Equal(s.start) && time.Time(*found.UpdatedAt).Equal(t0))
		vfAssert("receivers-are-what-routing-selects", len(found.Receivers) == len(wantRecv[i]))
		for k := range wantRecv[i] {
			if k < len(found.Receivers) {
				vfAssert("receivers-are-what-routing-selects", *found.Receivers[k].Name == wantRecv[i][k])
			}
		}
		wantState := "active"
		if suppressed {
			wantState = "suppressed"
		}
		vfAssert("status-is-current-suppression", *found.Status.State == wantState && (len(found.Status.SilencedBy) == 1) == s.sil && (len(found.Status.InhibitedBy) == 1) == s.inh)
	}
	vfAssert("nothing-else-listed", len(got) == want)
	for k := 1; k < len(got); k++ {
		vfAssert("fingerprint-order", *got[k-1].Fingerprint < *got[k].Fingerprint)
	}
}
