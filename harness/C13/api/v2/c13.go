package v2

import (
	"context"
	"net/http"
	"net/url"
	"time"

	"github.com/go-openapi/strfmt"
	"github.com/prometheus/client_golang/prometheus"
	"github.com/prometheus/common/model"
	"github.com/prometheus/common/promslog"

	"github.com/prometheus/alertmanager/api/metrics"
	open_api_models "github.com/prometheus/alertmanager/api/v2/models"
	alert_ops "github.com/prometheus/alertmanager/api/v2/restapi/operations/alert"
	"github.com/prometheus/alertmanager/config"
	"github.com/prometheus/alertmanager/provider"
	"github.com/prometheus/alertmanager/types"
)

type hProvider13 struct {
	provider.Alerts
	put []*types.Alert
}

func (p *hProvider13) Put(_ context.Context, as ...*types.Alert) error {
	p.put = append(p.put, as...)
	return nil
}

// VerifC13_PostDefaults: POST /api/v2/alerts with a batch of 1-3 alerts, each with or
// without start/end, with valid, empty-valued or no labels. Every valid alert reaches
// the store even if others are rejected; start defaults to end or to the receive time,
// end defaults to receive time + resolve_timeout (marked as timeout); empty-valued
// labels are dropped; the response is 400 iff some alert was invalid.
//
//vf:bounds unwind=12 decisions=300
//vf:expect reach=all-valid reach=some-invalid reach=timeout-set reach=start-from-end
func VerifC13_PostDefaults() {
	prov := &hProvider13{}
	rt := vfSeconds("resolveTimeout", 1, 3600)
	api := &API{
		alerts:             prov,
		logger:             promslog.NewNopLogger(),
		m:                  metrics.NewAlerts(prometheus.NewRegistry()),
		alertmanagerConfig: &config.Config{Global: &config.GlobalConfig{ResolveTimeout: model.Duration(rt)}},
	}
	vfAdvance(vfSeconds("t", 0, 86400))
	now := vfNow()
	base := time.Unix(946684800, 0).UTC()
	n := 1 + vfChoice("batch", 2+vfTier())
	var batch open_api_models.PostableAlerts
	type exp struct {
		valid      bool
		start, end time.Time
		timeout    bool
	}
	var want []exp
	invalid := 0
	for i := 0; i < n; i++ {
		pa := &open_api_models.PostableAlert{}
		var e exp
		switch vfChoice("labels", 3) {
		case 0:
			pa.Labels = open_api_models.LabelSet{"alertname": "A", "empty": ""}
			e.valid = true
		case 1:
			pa.Labels = open_api_models.LabelSet{"only-empty": ""} // nothing left after dropping empty values
		case 2:
			pa.Labels = open_api_models.LabelSet{"alertname": "B"}
			e.valid = true
		}
		hasStart, hasEnd := vfBool("hasStart"), vfBool("hasEnd")
		var st, en time.Time
		if hasStart {
			st = base.Add(vfSeconds("start", 1, 2*86400))
			pa.StartsAt = strfmt.DateTime(st)
		}
		if hasEnd {
			en = base.Add(vfSeconds("end", 1, 3*86400))
			pa.EndsAt = strfmt.DateTime(en)
		}
		switch {
		case hasStart:
			e.start = st
		case hasEnd:
			e.start = en
			vfReach("start-from-end")
		default:
			e.start = now
		}
		if hasEnd {
			e.end = en
		} else {
			e.end, e.timeout = now.Add(rt), true
			vfReach("timeout-set")
		}
		if e.end.Before(e.start) {
			e.valid = false // end before start is rejected
		}
		if !e.valid {
			invalid++
		}
		want = append(want, e)
		batch = append(batch, pa)
	}
	resp := api.postAlertsHandler(alert_ops.PostAlertsParams{
		HTTPRequest: &http.Request{Method: "POST", URL: &url.URL{Path: "/api/v2/alerts"}},
		Alerts:      batch,
	})
	_, isOK := resp.(*alert_ops.PostAlertsOK)
	_, isBad := resp.(*alert_ops.PostAlertsBadRequest)
	vfAssert("400-iff-some-invalid", isBad == (invalid > 0) && isOK == (invalid == 0))
	if invalid > 0 {
		vfReach("some-invalid")
	} else {
		vfReach("all-valid")
	}
	vfAssert("every-valid-alert-stored", len(prov.put) == n-invalid)
	k := 0
	for _, e := range want {
		if !e.valid || k >= len(prov.put) {
			continue
		}
		got := prov.put[k]
		k++
		vfAssert("start-default", got.StartsAt.Equal(e.start))
		vfAssert("end-default", got.EndsAt.Equal(e.end) && got.Timeout == e.timeout)
		vfAssert("updated-at-receive-time", got.UpdatedAt.Equal(now))
		_, hasEmpty := got.Labels["empty"]
		vfAssert("empty-labels-removed", !hasEmpty && len(got.Labels) == 1)
	}
}
