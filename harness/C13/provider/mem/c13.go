package mem

import (
	"context"
	"time"

	"github.com/prometheus/client_golang/prometheus"
	"github.com/prometheus/common/model"
	"github.com/prometheus/common/promslog"

	"github.com/prometheus/alertmanager/eventrecorder"
	"github.com/prometheus/alertmanager/types"
)

type hSub13 struct {
	start, end time.Time
	timeout    bool
}

// hSubmit13 builds an alert the way the API hands it to the provider at `now`:
// start given or defaulted, end explicit or now+resolve_timeout (Timeout set).
func hSubmit13(tag string, now time.Time, rt time.Duration) (*types.Alert, hSub13) {
	a := &types.Alert{}
	a.Labels = model.LabelSet{"alertname": "A", "instance": "i"}
	a.UpdatedAt = now
	base := time.Unix(946684800, 0).UTC()
	var s hSub13
	s.start = base.Add(vfSeconds(tag+".start", 0, 6*3600))
	if vfBool(tag + ".timeout") {
		s.timeout = true
		s.end = now.Add(rt)
	} else {
		s.end = base.Add(vfSeconds(tag+".end", 0, 8*3600))
	}
	// the API rejects end before start, and a defaulted start never exceeds now
	vfAssume(!s.end.Before(s.start))
	vfAssume(!s.start.After(now) || !s.timeout)
	a.StartsAt, a.EndsAt, a.Timeout = s.start, s.end, s.timeout
	a.Annotations = model.LabelSet{"n": model.LabelValue(tag)}
	return a, s
}

// VerifC13_PutMerge: two submissions of one label set at arbitrary instants with
// arbitrary (explicit or timed-out) activity ranges. Overlapping submissions keep
// the earliest start, a timed-out end is pushed forward by a re-send, an explicit end
// that has passed resolves the alert at once, the newest annotations win, and the
// stored alert is what subscribers receive.
//
//vf:bounds unwind=12 decisions=300
//vf:expect reach=overlap reach=disjoint reach=timeout-extended reach=resolved-now
func VerifC13_PutMerge() {
	ctx, cancel := context.WithCancel(context.Background())
	defer cancel() // lets the provider's GC goroutine exit (also when a replay stops early)
	a, err := NewAlerts(ctx, 100000*time.Hour, 0, nil, promslog.NewNopLogger(), eventrecorder.Recorder{}, prometheus.NewRegistry(), nil)
	if err != nil {
		panic(err)
	}
	it := a.Subscribe("h")
	rt := 5 * time.Minute
	vfAdvance(vfSeconds("t1", 0, 4*3600))
	now1 := vfNow()
	a1, s1 := hSubmit13("a1", now1, rt)
	vfAssert("put-ok", a.Put(ctx, a1) == nil)
	vfAdvance(vfSeconds("t2", 1, 4*3600))
	now2 := vfNow()
	a2, s2 := hSubmit13("a2", now2, rt)
	vfAssert("put-ok", a.Put(ctx, a2) == nil)

	got, gerr := a.Get(a1.Fingerprint())
	vfAssert("stored", gerr == nil)
	// strict overlap of the two activity ranges (touching ranges are left open)
	overlap := s2.start.Before(s1.end) && s1.start.Before(s2.end)
	touching := s2.start.Equal(s1.end) || s1.start.Equal(s2.end) || s2.end.Equal(s1.end) || s2.start.Equal(s1.start) || s2.end.Equal(s1.start)
	if overlap && !touching {
		vfReach("overlap")
		minStart := s1.start
		if s2.start.Before(minStart) {
			minStart = s2.start
		}
		vfAssert("overlapping-keeps-earliest-start", got.StartsAt.Equal(minStart))
	} else if !overlap {
		vfReach("disjoint")
	}
	if s1.timeout && s2.timeout {
		vfAssert("timeout-end-pushed-forward", got.EndsAt.Equal(now2.Add(rt)))
		vfReach("timeout-extended")
	}
	if !s2.timeout && !s2.end.After(now2) {
		vfAssert("explicit-past-end-resolves-now", got.Resolved())
		vfReach("resolved-now")
	}
	vfAssert("newest-annotations-win", got.Annotations["n"] == "a2")
	vfAssert("updated-at-newest", got.UpdatedAt.Equal(now2))
	// a newer explicit end is never replaced by an older, earlier one
	if !s2.timeout {
		vfAssert("end-at-least-newest-explicit", !got.EndsAt.Before(s2.end) || got.EndsAt.Equal(s2.end))
	}
	// subscribers saw both submissions, in order, the second as stored
	m1 := <-it.Next()
	m2 := <-it.Next()
	vfAssert("published-in-order", m1.Data.UpdatedAt.Equal(now1) && m2.Data == got)
	it.Close()
}

// VerifC13_GC: garbage collection removes exactly the resolved alerts (end <= now),
// reports them to the callbacks, and keeps every alert whose end has not passed.
//
//vf:bounds unwind=12 decisions=200
//vf:expect reach=collected reach=kept
func VerifC13_GC() {
	ctx, cancel := context.WithCancel(context.Background())
	defer cancel()
	cb := &hCallback13{}
	a, err := NewAlerts(ctx, 100000*time.Hour, 0, cb, promslog.NewNopLogger(), eventrecorder.Recorder{}, prometheus.NewRegistry(), nil)
	if err != nil {
		panic(err)
	}
	now := vfNow()
	n := 2 + vfTier()
	ends := make([]time.Time, n)
	fps := make([]model.Fingerprint, n)
	for i := 0; i < n; i++ {
		al := &types.Alert{}
		al.Labels = model.LabelSet{"alertname": "A", "instance": model.LabelValue([]string{"0", "1", "2"}[i])}
		al.StartsAt = now
		ends[i] = now.Add(vfSeconds("end", 0, 7200))
		al.EndsAt = ends[i]
		al.UpdatedAt = now
		fps[i] = al.Fingerprint()
		vfAssert("put-ok", a.Put(ctx, al) == nil)
	}
	vfAdvance(vfSeconds("advance", 0, 7200))
	now = vfNow()
	a.gc()
	want := 0
	for i := 0; i < n; i++ {
		_, gerr := a.Get(fps[i])
		if ends[i].After(now) {
			vfAssert("unresolved-never-collected", gerr == nil)
			vfReach("kept")
		} else {
			vfAssert("resolved-collected", gerr != nil)
			want++
			vfReach("collected")
		}
	}
	vfAssert("callbacks-see-exactly-the-collected", cb.deleted == want && cb.gced == want)
}

type hCallback13 struct{ deleted, gced int }

func (c *hCallback13) PreStore(_ *types.Alert, _ bool) error { return nil }
func (c *hCallback13) PostStore(_ *types.Alert, _ bool)      {}
func (c *hCallback13) PostDelete(_ *types.Alert)             { c.deleted++ }
func (c *hCallback13) PostGC(ff model.Fingerprints)          { c.gced += len(ff) }
