package nflog

import (
	"github.com/prometheus/client_golang/prometheus"
	"time"

	"google.golang.org/protobuf/types/known/timestamppb"

	pb "github.com/prometheus/alertmanager/nflog/nflogpb"
)

// vfT10 returns a symbolic instant between 1970 and ~2200 (unix seconds) with
// symbolic nanoseconds.
func vfT10(name string) time.Time {
	sec := vfIntRange(name+".s", 0, 7258118400)
	ns := vfIntRange(name+".ns", 0, 999999999)
	return time.Unix(int64(sec), int64(ns)).UTC()
}

func vfEntry10(gkey string, recv *pb.Receiver, ts, exp time.Time) *pb.MeshEntry {
	return &pb.MeshEntry{
		Entry: &pb.Entry{
			Receiver:  recv,
			GroupKey:  []byte(gkey),
			Timestamp: timestamppb.New(ts),
		},
		ExpiresAt: timestamppb.New(exp),
	}
}

// VerifC10_MergeStep: one merge from an arbitrary pre-state (inductive step).
// The post-state holds the entry with the newest timestamp among the stored one
// and the incoming one, an older entry never overwrites a newer one, an expired
// entry is never accepted, and the return value says exactly whether it was taken.
//
//vf:bounds unwind=4 decisions=60
//vf:expect reach=taken-fresh reach=taken-newer reach=refused-older reach=refused-expired
func VerifC10_MergeStep() {
	recv := &pb.Receiver{GroupName: "r", Integration: "webhook", Idx: 0}
	st := state{}
	hasPrev := vfBool("hasPrev")
	prevTs := vfT10("prevTs")
	prevExp := vfT10("prevExp")
	var prev *pb.MeshEntry
	if hasPrev {
		prev = vfEntry10("g", recv, prevTs, prevExp)
		st[stateKey("g", recv)] = prev
	}
	inTs := vfT10("inTs")
	inExp := vfT10("inExp")
	now := vfT10("now")
	// the property quantifies over entries with distinct timestamps
	vfAssume(!hasPrev || !prevTs.Equal(inTs))
	// the single instant ExpiresAt == now is left open by the property text
	vfAssume(!inExp.Equal(now))
	e := vfEntry10("g", recv, inTs, inExp)

	merged := st.merge(e, now)

	cur := st[stateKey("g", recv)]
	expired := inExp.Before(now)
	newer := !hasPrev || prevTs.Before(inTs)
	vfObserve("merged", merged)
	vfAssert("return-exact", merged == (!expired && newer))
	if merged {
		vfAssert("taken-is-incoming", cur == e)
		if hasPrev {
			vfReach("taken-newer")
		} else {
			vfReach("taken-fresh")
		}
	} else {
		vfAssert("refused-keeps-prev", cur == prev)
		if expired {
			vfReach("refused-expired")
		} else {
			vfReach("refused-older")
		}
	}
	if hasPrev && cur != nil {
		vfAssert("never-backwards", !cur.Entry.Timestamp.AsTime().Before(prevTs))
	}
	vfAssert("len", len(st) <= 1)
}

func hNewLog10(retention time.Duration) *Log {
	l, err := New(Options{Retention: retention, Metrics: prometheus.NewRegistry()})
	if err != nil {
		panic(err)
	}
	return l
}

// VerifC10_Log: Log() from an arbitrary pre-state at an arbitrary instant.
// If the stored timestamp is after now nothing changes; otherwise Query returns an
// entry with Timestamp = now, the given alert hashes, the same receiver data and
// ExpiresAt = now + (expiry>0 && retention>expiry ? expiry : retention); exactly
// one broadcast happens.
//
//vf:bounds unwind=6 decisions=80
//vf:expect reach=kept-newer reach=logged reach=expiry-used reach=retention-used
func VerifC10_Log() {
	retention := vfSeconds("retention", 1, 400*86400)
	expiry := vfSeconds("expiry", 0, 800*86400)
	l := hNewLog10(retention)
	recv := &pb.Receiver{GroupName: "r", Integration: "webhook", Idx: 1}
	other := &pb.Receiver{GroupName: "r", Integration: "webhook", Idx: 2}
	hasPrev := vfBool("hasPrev")
	prevTs := vfT10("prevTs")
	var prev *pb.MeshEntry
	if hasPrev {
		prev = vfEntry10("g", recv, prevTs, vfT10("prevExp"))
		prev.Entry.FiringAlerts = []uint64{7}
		l.st[stateKey("g", recv)] = prev
	}
	// an unrelated key must never be touched or returned
	otherE := vfEntry10("g", other, vfT10("otherTs"), vfT10("otherExp"))
	l.st[stateKey("g", other)] = otherE

	bcasts := 0
	l.SetBroadcast(func(b []byte) { bcasts++ })
	vfAdvance(vfDuration("advance", 0, int64OfDays10(30000)))
	now := vfNow()
	store := NewStore(nil)
	store.SetInt("threadTs", 42)
	store.SetStr("channel", "c1")
	firing := []uint64{1, 2}
	resolved := []uint64{3}
	// equal timestamps are outside the property's quantifier (distinct update times)
	vfAssume(!hasPrev || !prevTs.Equal(now))
	err := l.Log(recv, "g", firing, resolved, store, expiry)
	vfAssert("log-no-error", err == nil)

	entries, qerr := l.Query(QReceiver(recv), QGroupKey("g"))
	vfAssert("query-finds", qerr == nil && len(entries) == 1)
	got := entries[0]
	if hasPrev && prevTs.After(now) {
		vfReach("kept-newer")
		vfAssert("newer-kept", got == prev.Entry && bcasts == 0)
	} else {
		vfReach("logged")
		vfAssert("one-broadcast", bcasts == 1)
		vfAssert("ts-now", got.Timestamp.AsTime().Equal(now))
		vfAssert("alerts-stored", len(got.FiringAlerts) == 2 && got.FiringAlerts[0] == 1 && got.FiringAlerts[1] == 2 &&
			len(got.ResolvedAlerts) == 1 && got.ResolvedAlerts[0] == 3)
		rs := NewStore(got)
		iv, ok1 := rs.GetInt("threadTs")
		sv, ok2 := rs.GetStr("channel")
		vfAssert("receiver-data-unchanged", ok1 && ok2 && iv == 42 && sv == "c1" && len(got.ReceiverData) == 2)
		want := now.Add(retention)
		if expiry > 0 && retention > expiry {
			want = now.Add(expiry)
			vfReach("expiry-used")
		} else {
			vfReach("retention-used")
		}
		vfAssert("expires-at", l.st[stateKey("g", recv)].ExpiresAt.AsTime().Equal(want))
	}
	// the other key is untouched and is what a query for it returns
	oe, oerr := l.Query(QReceiver(other), QGroupKey("g"))
	vfAssert("other-key-untouched", oerr == nil && len(oe) == 1 && oe[0] == otherE.Entry)
	_, nerr := l.Query(QReceiver(recv), QGroupKey("unknown"))
	vfAssert("unknown-not-found", nerr == ErrNotFound)
}

func int64OfDays10(d int) time.Duration { return time.Duration(d) * 24 * time.Hour }

// VerifC10_GC: after GC at `now` exactly the entries with ExpiresAt > now remain,
// the returned count is right, entries are kept until their expiry.
//
//vf:bounds unwind=8 decisions=120
//vf:expect reach=dropped reach=kept
func VerifC10_GC() {
	l := hNewLog10(time.Hour)
	keys := []string{"a", "b", "c"}
	recv := &pb.Receiver{GroupName: "r", Integration: "webhook", Idx: 0}
	n := 2 + vfTier()
	exps := make([]time.Time, n)
	for i := 0; i < n; i++ {
		exps[i] = vfT10("exp")
		// GC refuses zero expirations (returns an error); real entries always have one
		vfAssume(exps[i].Unix() > 0)
		l.st[stateKey(keys[i], recv)] = vfEntry10(keys[i], recv, vfT10("ts"), exps[i])
	}
	vfAdvance(vfDuration("advance", 0, int64OfDays10(30000)))
	now := vfNow()
	for i := 0; i < n; i++ {
		vfAssume(!exps[i].Equal(now)) // boundary instant left open by the property text
	}
	cnt, err := l.GC()
	vfAssert("gc-no-error", err == nil)
	want := 0
	for i := 0; i < n; i++ {
		_, present := l.st[stateKey(keys[i], recv)]
		if exps[i].After(now) {
			vfReach("kept")
			vfAssert("unexpired-kept", present)
		} else {
			vfReach("dropped")
			want++
			vfAssert("expired-dropped", !present)
		}
	}
	vfAssert("count", cnt == want)
	vfAssert("len", len(l.st) == n-want)
}

// VerifC10_Converge: the same multiset of 3 (quick) / 4 (thorough) entries with
// distinct timestamps over 2 keys, delivered to one log one by one and to another
// in any permutation cut into any batches, each followed by a duplicate, ends in the
// same state: per key the newest unexpired entry; duplicates are not gossiped again.
//
//vf:quick unwind=8 decisions=200 paths=400000
//vf:thorough unwind=10 decisions=300 paths=6000000
//vf:expect reach=converged
func VerifC10_Converge() {
	recvA := &pb.Receiver{GroupName: "r", Integration: "webhook", Idx: 0}
	gkeys := []string{"g1", "g2", "g3"}
	n := 3 + vfTier()
	nKeys := 2
	es := make([]*pb.MeshEntry, n)
	ts := make([]time.Time, n)
	key := make([]int, n)
	for i := 0; i < n; i++ {
		ts[i] = vfT10("ts")
		key[i] = vfChoice("key", nKeys)
		es[i] = vfEntry10(gkeys[key[i]], recvA, ts[i], vfT10("exp"))
		es[i].Entry.FiringAlerts = []uint64{uint64(i)}
	}
	for i := 0; i < n; i++ {
		for j := i + 1; j < n; j++ {
			vfAssume(!ts[i].Equal(ts[j]))
		}
	}
	enc := func(idx ...int) []byte {
		var b []byte
		for _, i := range idx {
			x, err := marshalMeshEntry(es[i])
			if err != nil {
				panic(err)
			}
			b = append(b, x...)
		}
		return b
	}
	l1 := hNewLog10(time.Hour)
	l2 := hNewLog10(time.Hour)
	g1, g2 := 0, 0
	l1.SetBroadcast(func([]byte) { g1++ })
	l2.SetBroadcast(func([]byte) { g2++ })
	// log 1: one by one in index order, then a duplicate of the first
	for i := 0; i < n; i++ {
		vfAssert("merge-ok", l1.Merge(enc(i)) == nil)
	}
	before := g1
	vfAssert("merge-ok", l1.Merge(enc(0)) == nil)
	vfAssert("duplicate-no-gossip", g1 == before)
	// log 2: an arbitrary permutation, cut into arbitrary batches (a batch is a peer's
	// full state: at most one entry per key), then an arbitrary entry once more
	perms := hPerms10(n)
	perm := perms[vfChoice("perm", len(perms))]
	var batch []int
	flush := func() {
		for x := 0; x < len(batch); x++ {
			for y := x + 1; y < len(batch); y++ {
				vfAssume(key[batch[x]] != key[batch[y]])
			}
		}
		vfAssert("merge-ok", l2.Merge(enc(batch...)) == nil)
		batch = nil
	}
	for pos, i := range perm {
		batch = append(batch, i)
		if pos == n-1 || vfBool("cut") {
			flush()
		}
	}
	before = g2
	vfAssert("merge-ok", l2.Merge(enc(vfChoice("duplicate", n))) == nil)
	vfAssert("duplicate-no-gossip", g2 == before)
	now := vfNow()
	for i := 0; i < n; i++ {
		vfAssume(!es[i].ExpiresAt.AsTime().Equal(now))
	}
	// both hold, per key, the newest entry among those not expired
	for k := 0; k < nKeys; k++ {
		best := -1
		for i := 0; i < n; i++ {
			if key[i] != k || es[i].ExpiresAt.AsTime().Before(now) {
				continue
			}
			if best < 0 || ts[best].Before(ts[i]) {
				best = i
			}
		}
		e1, ok1 := l1.st[stateKey(gkeys[k], recvA)]
		e2, ok2 := l2.st[stateKey(gkeys[k], recvA)]
		vfAssert("same-presence", ok1 == ok2 && ok1 == (best >= 0))
		if best >= 0 {
			vfAssert("newest-wins-1", e1.Entry.Timestamp.AsTime().Equal(ts[best]) && e1.Entry.FiringAlerts[0] == uint64(best))
			vfAssert("newest-wins-2", e2.Entry.Timestamp.AsTime().Equal(ts[best]) && e2.Entry.FiringAlerts[0] == uint64(best))
		}
	}
	vfReach("converged")
}

// hPerms10: all permutations of 0..n-1.
func hPerms10(n int) [][]int {
	if n == 0 {
		return [][]int{{}}
	}
	var out [][]int
	for _, p := range hPerms10(n - 1) {
		for pos := 0; pos <= len(p); pos++ {
			q := append(append(append([]int{}, p[:pos]...), n-1), p[pos:]...)
			out = append(out, q)
		}
	}
	return out
}

// VerifC10_ReceiverData: receiver data logged with a notification is returned unchanged
// by later queries, whatever a later, unfinished notification attempt does with the
// Store it built from the queried entry (set, overwrite, delete: the delivery then fails
// and nothing is logged), and the held entry changes only through Log: after a
// successful attempt the new data are returned and the timestamp has moved on.
//
//vf:quick unwind=8 decisions=200
//vf:thorough unwind=8 decisions=200
//vf:expect reach=abandoned-attempt reach=logged-again
func VerifC10_ReceiverData() {
	l := hNewLog10(time.Hour)
	recv := &pb.Receiver{GroupName: "r", Integration: "slack", Idx: 0}
	st := NewStore(nil)
	st.SetStr("threadTs", "1111.1")
	st.SetInt("attempts", 1)
	vfAssert("log-ok", l.Log(recv, "gk", []uint64{1}, nil, st, 0) == nil)
	vfAdvance(vfSeconds("later", 1, 600))
	es, err := l.Query(QGroupKey("gk"), QReceiver(recv))
	vfAssert("query-ok", err == nil && len(es) == 1)
	ts1 := es[0].Timestamp.AsTime()
	// a later attempt builds its store from the held entry and works on it
	work := NewStore(es[0])
	switch vfChoice("attemptDoes", 4) {
	case 0:
		work.SetInt("attempts", 2)
	case 1:
		work.SetStr("threadTs", "2222.2")
	case 2:
		work.Delete("threadTs")
	case 3:
		work.SetFloat("score", 1.5)
	}
	if vfBool("attemptSucceeds") {
		vfAssert("log-ok", l.Log(recv, "gk", []uint64{1}, nil, work, 0) == nil)
		es2, err := l.Query(QGroupKey("gk"), QReceiver(recv))
		vfAssert("query-ok", err == nil && len(es2) == 1)
		vfAssert("new-entry-has-a-newer-timestamp", es2[0].Timestamp.AsTime().After(ts1))
		vfReach("logged-again")
		return
	}
	// the attempt was abandoned: the held entry is exactly what was logged
	es3, err := l.Query(QGroupKey("gk"), QReceiver(recv))
	vfAssert("query-ok", err == nil && len(es3) == 1)
	back := NewStore(es3[0])
	ts, okT := back.GetStr("threadTs")
	at, okA := back.GetInt("attempts")
	_, okS := back.GetFloat("score")
	vfAssert("receiver-data-returned-unchanged", okT && ts == "1111.1" && okA && at == 1 && !okS && len(es3[0].ReceiverData) == 2)
	vfAssert("timestamp-unchanged-without-log", es3[0].Timestamp.AsTime().Equal(ts1))
	vfReach("abandoned-attempt")
}
