package nflog

import (
	"time"

	"google.golang.org/protobuf/types/known/timestamppb"

	pb "github.com/prometheus/alertmanager/nflog/nflogpb"
)

// vfT10 returns a symbolic instant between 1970 and ~2200 (unix seconds) with
// symbolic nanoseconds.
func vfT10(name string) time.Time {
	sec := vfIntRange(name+".s", 0, 7258118400)
	ns := vfIntRange(name+".ns", 0, 999999999)
	return time.Unix(int64(sec), int64(ns)).UTC()
}

func vfEntry10(gkey string, recv *pb.Receiver, ts, exp time.Time) *pb.MeshEntry {
	return &pb.MeshEntry{
		Entry: &pb.Entry{
			Receiver:  recv,
			GroupKey:  []byte(gkey),
			Timestamp: timestamppb.New(ts),
		},
		ExpiresAt: timestamppb.New(exp),
	}
}

// VerifC10_MergeStep: one merge from an arbitrary pre-state (inductive step).
// The post-state holds the entry with the newest timestamp among the stored one
// and the incoming one, an older entry never overwrites a newer one, an expired
// entry is never accepted, and the return value says exactly whether it was taken.
//vf:bounds unwind=4 decisions=60
//vf:expect reach=taken-fresh reach=taken-newer reach=refused-older reach=refused-expired
func VerifC10_MergeStep() {
	recv := &pb.Receiver{GroupName: "r", Integration: "webhook", Idx: 0}
	st := state{}
	hasPrev := vfBool("hasPrev")
	prevTs := vfT10("prevTs")
	prevExp := vfT10("prevExp")
	var prev *pb.MeshEntry
	if hasPrev {
		prev = vfEntry10("g", recv, prevTs, prevExp)
		st[stateKey("g", recv)] = prev
	}
	inTs := vfT10("inTs")
	inExp := vfT10("inExp")
	now := vfT10("now")
	// the property quantifies over entries with distinct timestamps
	vfAssume(!hasPrev || !prevTs.Equal(inTs))
	e := vfEntry10("g", recv, inTs, inExp)

	merged := st.merge(e, now)

	cur := st[stateKey("g", recv)]
	expired := inExp.Before(now)
	newer := !hasPrev || prevTs.Before(inTs)
	vfObserve("merged", merged)
	vfAssert("return-exact", merged == (!expired && newer))
	if merged {
		vfAssert("taken-is-incoming", cur == e)
		if hasPrev {
			vfReach("taken-newer")
		} else {
			vfReach("taken-fresh")
		}
	} else {
		vfAssert("refused-keeps-prev", cur == prev)
		if expired {
			vfReach("refused-expired")
		} else {
			vfReach("refused-older")
		}
	}
	if hasPrev && cur != nil {
		vfAssert("never-backwards", !cur.Entry.Timestamp.AsTime().Before(prevTs))
	}
	vfAssert("len", len(st) <= 1)
}
