package inhibit

import (
	"context"
	"time"

	"github.com/prometheus/common/model"
	"github.com/prometheus/common/promslog"

	amcommoncfg "github.com/prometheus/alertmanager/config/common"
	"github.com/prometheus/alertmanager/eventrecorder"
	"github.com/prometheus/alertmanager/marker"
	"github.com/prometheus/alertmanager/pkg/labels"
	"github.com/prometheus/alertmanager/types"
)

func hMatcher03(t labels.MatchType, n, v string) *labels.Matcher {
	m, err := labels.NewMatcher(t, n, v)
	if err != nil {
		panic(err)
	}
	return m
}

// rule pool: plain rule with one equal label; a rule whose target also matches its
// own sources (two-sided) with two equal labels; a rule without equal labels
func hRules03(k int) []amcommoncfg.InhibitRule {
	r0 := amcommoncfg.InhibitRule{
		Name:           "r0",
		SourceMatchers: amcommoncfg.Matchers{hMatcher03(labels.MatchEqual, "severity", "critical")},
		TargetMatchers: amcommoncfg.Matchers{hMatcher03(labels.MatchEqual, "severity", "warning")},
		Equal:          []string{"cluster"},
	}
	r1 := amcommoncfg.InhibitRule{
		Name:           "r1",
		SourceMatchers: amcommoncfg.Matchers{hMatcher03(labels.MatchEqual, "job", "db")},
		TargetMatchers: amcommoncfg.Matchers{hMatcher03(labels.MatchRegexp, "job", "db|web")},
		Equal:          []string{"cluster", "zone"},
	}
	r2 := amcommoncfg.InhibitRule{
		Name:           "r2",
		SourceMatchers: amcommoncfg.Matchers{hMatcher03(labels.MatchEqual, "severity", "critical")},
		TargetMatchers: amcommoncfg.Matchers{hMatcher03(labels.MatchNotEqual, "severity", "critical")},
	}
	switch k {
	case 0:
		return []amcommoncfg.InhibitRule{r0}
	case 1:
		return []amcommoncfg.InhibitRule{r1}
	case 2:
		return []amcommoncfg.InhibitRule{r2}
	default:
		return []amcommoncfg.InhibitRule{r0, r1}
	}
}

// source / target label pools
var hSources03 = []model.LabelSet{
	{"alertname": "S0", "severity": "critical", "cluster": "c1", "job": "db", "zone": "z"},
	{"alertname": "S1", "severity": "critical", "cluster": "c1", "job": "db", "zone": "z"}, // same equal labels as S0
	{"alertname": "S2", "severity": "critical", "job": "api"},                              // cluster missing
	{"alertname": "S3", "severity": "info", "cluster": "c1", "job": "db", "zone": "z"},     // two-sided for r1 only
}

var hTargets03 = []model.LabelSet{
	{"alertname": "T0", "severity": "warning", "cluster": "c1", "job": "web", "zone": "z"},
	{"alertname": "T1", "severity": "warning", "cluster": "", "job": "web"},               // empty = missing
	{"alertname": "T2", "severity": "warning", "cluster": "c1", "job": "db", "zone": "z"}, // matches r1 source too
	{"alertname": "T3", "severity": "page", "cluster": "c2", "job": "web", "zone": "z"},
}

type hSrc03 struct {
	seen bool
	end  time.Time
}

// hOracle03 restates the documented rule over the latest version of every source.
func hOracle03(rules []amcommoncfg.InhibitRule, sources []model.LabelSet, latest []hSrc03, target model.LabelSet, now time.Time) (bool, []model.Fingerprint, []bool) {
	muted := false
	var fps []model.Fingerprint
	var ok []bool
	for _, cr := range rules {
		if !labels.Matchers(cr.TargetMatchers).Matches(target) {
			continue
		}
		targetIsSource := labels.Matchers(cr.SourceMatchers).Matches(target)
		for i, src := range sources {
			if !latest[i].seen || !labels.Matchers(cr.SourceMatchers).Matches(src) {
				continue
			}
			eq := true
			for _, ln := range cr.Equal {
				if src[model.LabelName(ln)] != target[model.LabelName(ln)] {
					eq = false
				}
			}
			if !eq {
				continue
			}
			if targetIsSource && labels.Matchers(cr.TargetMatchers).Matches(src) {
				continue // an alert matching both sides is not inhibited by a two-sided source
			}
			firing := vfOr(latest[i].end.IsZero(), latest[i].end.After(now))
			muted = vfOr(muted, firing)
			fps = append(fps, src.Fingerprint())
			ok = append(ok, firing)
		}
	}
	return muted, fps, ok
}

// VerifC03_History: sources fire, are refreshed with other end times, resolve, are
// garbage collected and fire again in arbitrary order; after every step the verdict
// for a target equals the existential rule evaluated on the currently firing sources,
// and the reported inhibiting alert is one that satisfies the rule.
//
//vf:quick unwind=16 decisions=400 paths=300000
//vf:thorough unwind=24 decisions=600 paths=3000000
//vf:expect reach=inhibited reach=not-inhibited reach=gc reach=resolved
func VerifC03_History() {
	hHistory03(3+vfTier(), true)
}

// VerifC03_Quiet: like VerifC03_History but the verdict is only queried at the end
// (queries repair the lookup index, so histories without intermediate queries reach
// other states); one more step than VerifC03_History's quick tier.
//
//vf:quick unwind=16 decisions=400 paths=400000
//vf:thorough unwind=24 decisions=600 paths=4000000
//vf:expect reach=inhibited reach=not-inhibited reach=gc reach=resolved
func VerifC03_Quiet() {
	hHistory03(4, false) // (thorough: the full menus of rules, targets and sources instead of one more step)
}

func hHistory03(k int, checkEachStep bool) {
	nRules, nTargets, nSrc := 4, len(hTargets03), 4
	if !checkEachStep && vfTier() == 0 {
		// quick tier of the quiet variant: one rule, one target, the two sources that
		// share their equal labels (the full menus run in the thorough tier)
		nRules, nTargets, nSrc = 1, 1, 2
	}
	hHistoryOn03(k, checkEachStep, hRules03(vfChoice("rules", nRules)), hSources03[:nSrc], hTargets03[:nTargets])
}

func hHistoryOn03(k int, checkEachStep bool, cfg []amcommoncfg.InhibitRule, sources, targets []model.LabelSet) {
	nSrc, nTargets := len(sources), len(targets)
	ih := NewInhibitor(nil, cfg, promslog.NewNopLogger(), eventrecorder.Recorder{})
	mk := marker.NewAlertMarker()
	ctx := marker.WithContext(context.Background(), mk)
	target := targets[vfChoice("target", nTargets)]
	latest := make([]hSrc03, len(sources))

	check := func() {
		got := ih.Mutes(ctx, target)
		now := vfNow()
		want, fps, firing := hOracle03(cfg, sources, latest, target, now)
		vfAssert("verdict-equals-existential-rule", got == want)
		st := mk.Status(target.Fingerprint())
		if got {
			vfReach("inhibited")
			// the reported inhibitor is a currently firing source satisfying the rule
			valid := false
			for i, fp := range fps {
				valid = vfOr(valid, vfAnd(firing[i], len(st.InhibitedBy) == 1 && st.InhibitedBy[0] == fp.String()))
			}
			vfAssert("reported-inhibitor-is-valid", valid)
		} else {
			vfReach("not-inhibited")
			vfAssert("no-inhibitor-reported", len(st.InhibitedBy) == 0)
		}
	}

	for slot := 0; slot < k; slot++ {
		vfAdvance(vfSeconds("advance", 0, 3600))
		now := vfNow()
		op := vfChoice("op", nSrc+2)
		if op >= nSrc {
			op += 4 - nSrc
		}
		switch op {
		case 0, 1, 2, 3: // source op fires / is refreshed / resolves
			a := &types.Alert{}
			a.Labels = sources[op]
			a.StartsAt = now.Add(-time.Minute)
			a.UpdatedAt = now
			if vfBool("resolves") {
				a.EndsAt = now
				vfReach("resolved")
			} else {
				a.EndsAt = now.Add(vfSeconds("endIn", 1, 7200))
			}
			ih.processAlert(context.Background(), a)
			latest[op] = hSrc03{seen: true, end: a.EndsAt}
		case 4:
			for _, r := range ih.rules {
				r.scache.GC()
			}
			vfReach("gc")
		case 5: // only time passes
		}
		if checkEachStep || slot == k-1 {
			check()
		}
	}
}

// VerifC03_MixedSources: a rule whose source side is wider than its target side, so
// that of two sources with the same equal labels one matches both sides (a page) and
// one only the source side (a critical). A page (itself matching both sides) is
// inhibited by the critical alone, never by the other page, whichever of the two the
// rule's lookup index happens to point at: histories of fire / refresh / resolve / GC
// over the two sources, verdict checked after every step (quick) or only at the end.
//
//vf:quick unwind=16 decisions=400 paths=400000
//vf:thorough unwind=24 decisions=600 paths=4000000
//vf:expect reach=inhibited reach=not-inhibited
func VerifC03_MixedSources() {
	rule := amcommoncfg.InhibitRule{
		Name:           "wide-source",
		SourceMatchers: amcommoncfg.Matchers{hMatcher03(labels.MatchRegexp, "severity", "critical|page")},
		TargetMatchers: amcommoncfg.Matchers{hMatcher03(labels.MatchRegexp, "severity", "warning|page")},
		Equal:          []string{"cluster"},
	}
	sources := []model.LabelSet{
		{"alertname": "Crit", "severity": "critical", "cluster": "c1"},
		{"alertname": "Page", "severity": "page", "cluster": "c1"},
	}
	targets := []model.LabelSet{
		{"alertname": "OtherPage", "severity": "page", "cluster": "c1"},
		{"alertname": "Warn", "severity": "warning", "cluster": "c1"},
	}
	hHistoryOn03(3+vfTier(), vfBool("queryEveryStep"), []amcommoncfg.InhibitRule{rule}, sources, targets)
}
