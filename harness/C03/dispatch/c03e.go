package dispatch

import (
	"context"
	"errors"
	"time"

	"github.com/prometheus/client_golang/prometheus"
	"github.com/prometheus/common/model"
	"github.com/prometheus/common/promslog"

	"github.com/prometheus/alertmanager/alert"
	"github.com/prometheus/alertmanager/config"
	amcommoncfg "github.com/prometheus/alertmanager/config/common"
	"github.com/prometheus/alertmanager/pkg/labels"
	"github.com/prometheus/alertmanager/eventrecorder"
	"github.com/prometheus/alertmanager/featurecontrol"
	"github.com/prometheus/alertmanager/inhibit"
	"github.com/prometheus/alertmanager/marker"
	"github.com/prometheus/alertmanager/nflog"
	"github.com/prometheus/alertmanager/notify"
	"github.com/prometheus/alertmanager/provider/mem"
	"github.com/prometheus/alertmanager/silence"
	"github.com/prometheus/alertmanager/timeinterval"
	"github.com/prometheus/alertmanager/types"
)

type hRSe03 bool

func (r hRSe03) SendResolved() bool { return bool(r) }

// hRecvE03 is the receiver at the end of the real pipeline: per delivery attempt it
// accepts, fails recoverably or rejects, as scripted; it records when it was sent what.
type hRecvE03 struct {
	script []int
	at     []time.Time
	firing []int
	okAt   []time.Time
	target []time.Time // instants at which the target alert was listed
}

func (n *hRecvE03) Notify(ctx context.Context, as ...*alert.Alert) (bool, error) {
	i := len(n.at)
	n.at = append(n.at, time.Now())
	f := 0
	for _, a := range as {
		if !a.Resolved() {
			f++
		}
		if a.Labels["severity"] == "warning" {
			n.target = append(n.target, time.Now())
		}
	}
	n.firing = append(n.firing, f)
	o := 0
	if i < len(n.script) {
		o = n.script[i]
	}
	switch o {
	case 1:
		return true, errors.New("503 try again")
	case 2:
		return false, errors.New("400 rejected")
	}
	n.okAt = append(n.okAt, time.Now())
	return false, nil
}

// VerifC03_EndToEnd: inhibition through the assembled path: the real provider, the
// real inhibitor fed by its own subscription (Run), the dispatcher started with Run
// and the real pipeline, on one fixed fair schedule with a minimal repeat interval so
// that every flush of the target's group notifies. A rule lets critical alerts inhibit
// warnings of the same cluster. The source (critical) starts firing at a symbolic
// moment, in the target's cluster or another one, and resolves at a later symbolic
// moment. The target (warning) is notified at a flush tick iff no source of its
// cluster is firing at that tick.
//
//vf:quick unwind=24 decisions=900 goroutines=64 preempt=0 sched=fifo timerfires=160 paths=400000 steps=40000000
//vf:thorough unwind=24 decisions=1400 goroutines=128 preempt=0 sched=fifo timerfires=400 paths=4000000 steps=100000000
//vf:expect reach=inhibited-flush reach=notified-again reach=other-cluster
func VerifC03_EndToEnd() {
	ctx, cancel := context.WithCancel(context.Background())
	defer cancel()
	logger := promslog.NewNopLogger()
	alerts, err := mem.NewAlerts(ctx, 100000*time.Hour, 0, nil, logger, eventrecorder.Recorder{}, prometheus.NewRegistry(), nil)
	if err != nil {
		panic(err)
	}
	sils, err := silence.New(silence.Options{Retention: time.Hour, Metrics: prometheus.NewRegistry()})
	if err != nil {
		panic(err)
	}
	nlog, err := nflog.New(nflog.Options{Retention: 100 * time.Hour, Metrics: prometheus.NewRegistry()})
	if err != nil {
		panic(err)
	}
	mm := func(n, v string) *labels.Matcher {
		x, err := labels.NewMatcher(labels.MatchEqual, n, v)
		if err != nil {
			panic(err)
		}
		return x
	}
	ih := inhibit.NewInhibitor(alerts, []amcommoncfg.InhibitRule{{
		SourceMatchers: amcommoncfg.Matchers{mm("severity", "critical")},
		TargetMatchers: amcommoncfg.Matchers{mm("severity", "warning")},
		Equal:          []string{"cluster"},
	}}, logger, eventrecorder.Recorder{})
	vfGo("inhibitor", func() { ih.Run() })
	gm := marker.NewGroupMarker()
	recv := &hRecvE03{}
	pipeline := notify.NewPipelineBuilder(prometheus.NewRegistry(), featurecontrol.NoopFlags{}, eventrecorder.Recorder{}).New(
		map[string][]notify.Integration{"r": {notify.NewIntegration(recv, hRSe03(true), "webhook", 0, "r")}},
		func() time.Duration { return 0 },
		ih, silence.NewSilencer(sils, logger, eventrecorder.Recorder{}),
		timeinterval.NewIntervener(nil), gm, nlog, nil)
	giD := time.Minute
	gw, gi := model.Duration(0), model.Duration(giD)
	ri := model.Duration(time.Nanosecond)
	route := NewRoute(&config.Route{Receiver: "r", GroupBy: []model.LabelName{"alertname"}, GroupWait: &gw, GroupInterval: &gi, RepeatInterval: &ri}, nil)
	d := NewDispatcher(alerts, route, pipeline, gm, func(d time.Duration) time.Duration { return d },
		100000*time.Hour, nil, logger, eventrecorder.Recorder{}, nil, nil)
	vfGo("dispatcher", func() { d.Run(time.Now()) })
	defer func() {
		d.state.Store(DispatcherStateStopped)
		ih.Stop()
		cancel()
		d.cancel()
		if vfNative() {
			d.finished.Wait()
		}
	}()
	vfAdvance(5 * time.Second)

	t0 := vfNow()
	put := func(name, sev, cluster string, start, end time.Time) {
		a := &types.Alert{}
		a.Labels = model.LabelSet{"alertname": model.LabelValue(name), "severity": model.LabelValue(sev), "cluster": model.LabelValue(cluster)}
		a.StartsAt, a.UpdatedAt, a.EndsAt = start, vfNow(), end
		if alerts.Put(ctx, a) != nil {
			vfFail("alert-not-accepted")
		}
	}
	// the target fires from t0 on: flush ticks of its group at t0, t0+gi, ...
	put("DiskFilling", "warning", "c1", t0, t0.Add(1000*time.Hour))
	sameCluster := vfBool("sameCluster")
	cluster := "c2"
	if sameCluster {
		cluster = "c1"
	}
	maxS := 150
	if vfTier() > 0 {
		maxS = 300
	}
	vfAdvance(vfSeconds("sourceFiresAfter", 1, maxS))
	from := vfNow()
	put("NodeDown", "critical", cluster, from, from.Add(1000*time.Hour))
	vfAdvance(vfSeconds("sourceResolvesAfter", 1, maxS))
	to := vfNow()
	put("NodeDown", "critical", cluster, from, to) // explicit end now: resolved
	vfAdvance(2*giD + time.Second)
	end := vfNow()

	sent := map[int]bool{}
	for _, at := range recv.target {
		k := int(at.Sub(t0) / giD)
		vfAssert("target-only-listed-at-its-flush-ticks", at.Equal(t0.Add(time.Duration(k)*giD)))
		sent[k] = true
	}
	for k := 0; t0.Add(time.Duration(k) * giD).Before(end); k++ {
		tick := t0.Add(time.Duration(k) * giD)
		if tick.Equal(from) || tick.Equal(to) {
			continue // boundary instants are left open
		}
		if sameCluster && !tick.Before(from) && tick.Before(to) {
			vfAssert("target-not-notified-while-a-source-of-its-cluster-fires", !sent[k])
			vfReach("inhibited-flush")
		} else {
			vfAssert("target-notified-when-no-source-of-its-cluster-fires", sent[k])
			if sameCluster && !tick.Before(to) {
				vfReach("notified-again")
			}
			if !sameCluster {
				vfReach("other-cluster")
			}
		}
	}
}
