package dispatch

import (
	"context"
	"time"

	"github.com/prometheus/common/model"
	"github.com/prometheus/common/promslog"

	"github.com/prometheus/alertmanager/alert"
	"github.com/prometheus/alertmanager/config"
	amcommoncfg "github.com/prometheus/alertmanager/config/common"
	"github.com/prometheus/alertmanager/eventrecorder"
	"github.com/prometheus/alertmanager/marker"
	"github.com/prometheus/alertmanager/pkg/labels"
	"github.com/prometheus/alertmanager/types"
)

var hLabelPool06 = []model.LabelSet{
	{"alertname": "A", "cluster": "c1", "env": "prod"},
	{"alertname": "A", "cluster": "c1", "env": "dev"},
	{"alertname": "A", "cluster": "c2"},            // env absent
	{"alertname": "B", "cluster": "c1", "env": ""}, // env empty
	{"alertname": "A", "cluster": "c1", "env": "prod", "extra": "x"},
}

// VerifC06_GroupLabels: for every group_by setting (unset, any subset of three label
// names, the empty list, or '...') on a root route or on a child below a parent with
// any such setting (unset inherits, anything set replaces) and every pair of label sets from a pool (labels present,
// absent, empty-valued, extra labels): the group labels of an alert are exactly its own
// labels restricted to group_by (all of them for '...'), and two alerts fall into the
// same group iff they agree on those labels.
//
//vf:bounds unwind=16 decisions=200
//vf:expect reach=same-group reach=different-group reach=group-by-all reach=nested
func VerifC06_GroupLabels() {
	names := []model.LabelName{"alertname", "cluster", "env"}
	// a route's own group_by: unset (inherit), an explicit list (any subset, also the
	// empty list) or '...'
	own := func(tag string, cr *config.Route) (set, all bool, by map[model.LabelName]bool) {
		by = map[model.LabelName]bool{}
		switch vfChoice(tag+".groupBy", 3) {
		case 0:
			return false, false, by
		case 1:
			cr.GroupBy = []model.LabelName{}
			for _, n := range names {
				if vfBool(tag + ".by") {
					cr.GroupBy = append(cr.GroupBy, n)
					by[n] = true
				}
			}
			return true, false, by
		default:
			cr.GroupByAll = true
			return true, true, by
		}
	}
	cr := &config.Route{Receiver: "r"}
	set, all, by := own("route", cr)
	var route *Route
	if vfBool("nested") {
		// the route is a child: an unset group_by is inherited from the parent, a set
		// one (the empty list included) replaces the parent's
		pr := &config.Route{Receiver: "p", Routes: []*config.Route{cr}}
		pset, pall, pby := own("parent", pr)
		route = NewRoute(pr, nil).Routes[0]
		if !set {
			set, all, by = pset, pall, pby
		}
		vfReach("nested")
	} else {
		route = NewRoute(cr, nil)
	}
	_ = set // nowhere set: the default, one group for everything
	if all {
		vfReach("group-by-all")
	}
	l1 := hLabelPool06[vfChoice("a1", len(hLabelPool06))]
	l2 := hLabelPool06[vfChoice("a2", len(hLabelPool06))]
	a1, a2 := &alert.Alert{}, &alert.Alert{}
	a1.Labels, a2.Labels = l1, l2
	g1, g2 := getGroupLabels(a1, route), getGroupLabels(a2, route)
	// exactly the alert's own labels restricted to group_by
	for _, pair := range []struct{ lset, g model.LabelSet }{{l1, g1}, {l2, g2}} {
		want := 0
		for ln, lv := range pair.lset {
			if all || by[ln] {
				want++
				gv, ok := pair.g[ln]
				vfAssert("group-label-has-alert-value", ok && gv == lv)
			}
		}
		vfAssert("no-other-group-labels", len(pair.g) == want)
	}
	agree := true
	for _, n := range append(names, "extra") {
		if all || by[n] {
			v1, ok1 := l1[n]
			v2, ok2 := l2[n]
			if ok1 != ok2 || v1 != v2 {
				agree = false
			}
		}
	}
	same := g1.Fingerprint() == g2.Fingerprint()
	vfAssert("same-group-iff-same-group-by-values", same == agree)
	if same {
		vfReach("same-group")
	} else {
		vfReach("different-group")
	}
}

func hTree06() *config.Route {
	m := func(n, v string) *labels.Matcher {
		x, err := labels.NewMatcher(labels.MatchEqual, n, v)
		if err != nil {
			panic(err)
		}
		return x
	}
	gw := model.Duration(100 * time.Hour)
	return &config.Route{
		Receiver: "root", GroupBy: []model.LabelName{"alertname"}, GroupWait: &gw,
		Routes: []*config.Route{
			{Receiver: "team-a", Matchers: amcommoncfg.Matchers{m("cluster", "c1")}, GroupBy: []model.LabelName{"alertname", "env"}, Continue: true},
			// same matcher path and same group_by as team-a: equal key inputs
			{Receiver: "team-d", Matchers: amcommoncfg.Matchers{m("cluster", "c1")}, GroupBy: []model.LabelName{"alertname", "env"}, Continue: true},
			{Receiver: "team-b", Matchers: amcommoncfg.Matchers{m("cluster", "c1")}, GroupByAll: true},
			{Receiver: "team-c", Matchers: amcommoncfg.Matchers{m("cluster", "c2")}},
		},
	}
}

func hDispatcher06(route *Route) *Dispatcher {
	d := NewDispatcher(nil, route, nil, marker.NewGroupMarker(), func(d time.Duration) time.Duration { return d },
		1000*time.Hour, nil, promslog.NewNopLogger(), eventrecorder.Recorder{}, nil, nil)
	d.state.Store(DispatcherStateWaitingToStart)
	d.startTimer = time.NewTimer(2000 * time.Hour)
	d.routeGroupsSlice = make([]routeAggrGroups, route.Idx+1)
	route.Walk(func(r *Route) { d.routeGroupsSlice[r.Idx] = routeAggrGroups{route: r} })
	close(d.loaded)
	return d
}

func hAlert06(lset model.LabelSet, now time.Time, endIn time.Duration) *types.Alert {
	a := &types.Alert{}
	a.Labels = lset
	a.StartsAt, a.UpdatedAt, a.EndsAt = now, now, now.Add(endIn)
	return a
}

// VerifC06_KeysAndGroups: two independently built dispatchers over the same
// configuration (a restart) route the same alerts: the group keys are identical, a
// key is determined by the route's matcher path and the group label values (equal
// inputs => equal keys, different group labels or routes => different keys), every
// alert is held by exactly one group per matching route, and GET /alerts/groups shows
// exactly that partition with the right receiver.
//
//vf:bounds unwind=24 decisions=300
//vf:expect reach=checked
func VerifC06_KeysAndGroups() {
	now := vfNow()
	pick := []int{vfChoice("a1", len(hLabelPool06)), vfChoice("a2", len(hLabelPool06))}
	build := func() (*Dispatcher, *Route) {
		r := NewRoute(hTree06(), nil)
		d := hDispatcher06(r)
		for _, k := range pick {
			d.routeAlert(d.ctx, hAlert06(hLabelPool06[k], now, time.Hour))
		}
		return d, r
	}
	d1, r1 := build()
	d2, _ := build()
	defer d1.cancel()
	defer d2.cancel()
	keys := func(d *Dispatcher) map[string]int {
		out := map[string]int{}
		for i := range d.routeGroupsSlice {
			d.routeGroupsSlice[i].groups.Range(func(_, el any) bool {
				ag := el.(*aggrGroup)
				out[ag.GroupKey()] += len(ag.alerts.List())
				return true
			})
		}
		return out
	}
	// the key is a function of the matcher path and the group labels only: the two
	// sibling routes with equal matchers and equal group_by produce equal keys
	for _, k := range pick {
		lset := hLabelPool06[k]
		var ka, kd string
		for _, rt := range r1.Match(lset) {
			d1.routeGroupsSlice[rt.Idx].groups.Range(func(_, el any) bool {
				ag := el.(*aggrGroup)
				if _, err := ag.alerts.Get(lset.Fingerprint()); err == nil {
					switch rt.RouteOpts.Receiver {
					case "team-a":
						ka = ag.GroupKey()
					case "team-d":
						kd = ag.GroupKey()
					}
				}
				return true
			})
		}
		vfAssert("key-depends-only-on-matcher-path-and-group-labels", ka == kd)
	}
	k1, k2 := keys(d1), keys(d2)
	vfAssert("same-keys-across-instances", len(k1) == len(k2))
	for k, n := range k1 {
		vfAssert("same-key-same-content-across-instances", k2[k] == n)
	}
	// every alert is in exactly one group of every route that matches it
	for _, k := range pick {
		lset := hLabelPool06[k]
		for _, rt := range r1.Match(lset) {
			holders := 0
			d1.routeGroupsSlice[rt.Idx].groups.Range(func(_, el any) bool {
				ag := el.(*aggrGroup)
				if _, err := ag.alerts.Get(lset.Fingerprint()); err == nil {
					holders++
					gl := getGroupLabels(&alert.Alert{Alert: model.Alert{Labels: lset}}, rt)
					vfAssert("held-by-the-group-of-its-group-by-values", gl.Fingerprint() == ag.fingerprint())
				}
				return true
			})
			vfAssert("exactly-one-group-per-matching-route", holders == 1)
		}
	}
	// the API view is the same partition
	groups, receivers, err := d1.Groups(context.Background(), func(*Route) bool { return true }, func(*alert.Alert, time.Time) bool { return true })
	vfAssert("groups-ok", err == nil)
	ngroups := 0
	for i := range d1.routeGroupsSlice {
		d1.routeGroupsSlice[i].groups.Range(func(_, _ any) bool { ngroups++; return true })
	}
	vfAssert("api-shows-every-group", len(groups) == ngroups)
	for _, g := range groups {
		vfAssert("api-group-matches-store", k1[g.GroupKey] >= len(g.Alerts) && len(g.Alerts) >= 1)
		for _, a := range g.Alerts {
			for ln, lv := range g.Labels {
				vfAssert("every-alert-of-a-group-has-its-group-values", a.Labels[ln] == lv)
			}
		}
	}
	for _, k := range pick {
		lset := hLabelPool06[k]
		vfAssert("api-receivers-are-the-routed-ones", len(receivers[lset.Fingerprint()]) == len(r1.Match(lset)))
	}
	vfReach("checked")
}

// VerifC06_NoSplit: two ingestion steps for alerts with equal group labels run
// concurrently with a flush that successfully notifies a resolved alert and thereby
// destroys the group, and with maintenance. For every interleaving at sync.Map /
// store-lock / atomic granularity within the preemption bound: afterwards at most one
// group is registered for the group labels, it is not a destroyed one if it holds an
// alert, no unresolved alert is lost, and the group counters equal the number of
// registered groups.
//
//vf:quick unwind=12 decisions=300 paths=300000 preempt=1 goroutines=8
//vf:thorough unwind=12 decisions=400 paths=3000000 preempt=2 goroutines=8
//vf:expect reach=quiescent reach=group-destroyed reach=group-recreated
//vf:note natively the same goroutines run with the engine's schedule enforced by the sequencer
func VerifC06_NoSplit() {
	gw := model.Duration(100 * time.Hour)
	route := NewRoute(&config.Route{Receiver: "r", GroupBy: []model.LabelName{"alertname"}, GroupWait: &gw}, nil)
	d := hDispatcher06(route)
	defer d.cancel()
	now := vfNow()
	old := hAlert06(model.LabelSet{"alertname": "A", "instance": "old"}, now.Add(-time.Hour), 30*time.Minute) // already resolved
	a1 := hAlert06(model.LabelSet{"alertname": "A", "instance": "1"}, now, time.Hour)
	a2 := hAlert06(model.LabelSet{"alertname": "A", "instance": "2"}, now, time.Hour)
	// either the group exists already and holds only a resolved alert, or there is no
	// group yet and the resolved alert arrives concurrently with the firing ones (its
	// short-lived group may be flushed and destroyed while another worker is between
	// its lookup and its insertion)
	startEmpty := vfBool("noGroupYet")
	var first *aggrGroup
	if !startEmpty {
		d.routeAlert(d.ctx, old)
		d.routeGroupsSlice[route.Idx].groups.Range(func(_, el any) bool { first = el.(*aggrGroup); return true })
		d.runAG(first) // its run loop is what maintenance waits for when it stops the group
	}
	flushAll := func() {
		d.routeGroupsSlice[route.Idx].groups.Range(func(_, el any) bool {
			el.(*aggrGroup).flush(func(...*alert.Alert) bool { return true }) // delivered: resolved alerts removed, group destroyed if empty
			return true
		})
	}
	steps := []func(){
		func() { d.routeAlert(d.ctx, a1) },
		func() {
			if startEmpty {
				d.routeAlert(d.ctx, old)
			} else {
				d.routeAlert(d.ctx, a2)
			}
		},
		flushAll,
		func() { d.doMaintenance() },
	}
	names := []string{"ingest1", "ingest2", "flush", "maintenance"}
	for i := range steps {
		i := i
		vfGo(names[i], func() { steps[i]() })
	}
	vfAdvance(time.Second)
	vfReach("quiescent")
	// registered groups
	registered := 0
	var live *aggrGroup
	d.routeGroupsSlice[route.Idx].groups.Range(func(_, el any) bool {
		registered++
		live = el.(*aggrGroup)
		return true
	})
	vfAssert("never-two-groups-for-one-key", registered <= 1)
	vfAssert("counters-equal-registered-groups", int(d.aggrGroupsNum.Load()) == registered && int(d.routeGroupsSlice[route.Idx].groupsLen.Load()) == registered)
	if first != nil && first.destroyed() {
		vfReach("group-destroyed")
	}
	// no firing alert is lost: every firing alert is in the registered, non-destroyed group
	vfAssert("a-group-is-registered", registered == 1)
	if live != nil {
		_, e1 := live.alerts.Get(a1.Fingerprint())
		vfAssert("no-firing-alert-lost", e1 == nil)
		if !startEmpty {
			_, e2 := live.alerts.Get(a2.Fingerprint())
			vfAssert("no-firing-alert-lost", e2 == nil)
		}
		vfAssert("holding-group-is-not-destroyed", !live.destroyed())
		if live != first {
			vfReach("group-recreated")
		}
	}
}
