package notify

import (
	"context"
	"fmt"
	"time"

	"github.com/prometheus/client_golang/prometheus"
	"github.com/prometheus/common/model"
	"github.com/prometheus/common/promslog"

	"github.com/prometheus/alertmanager/alert"
	"github.com/prometheus/alertmanager/eventrecorder"
	"github.com/prometheus/alertmanager/featurecontrol"
	"github.com/prometheus/alertmanager/nflog"
)

type hRS08 bool

func (r hRS08) SendResolved() bool { return bool(r) }

type hNotifier08 struct {
	calls  int
	at     []time.Time
	crash  bool // the instance dies right after the receiver accepted, before recording
	early  bool // ... or while the request is still on its way: the receiver never gets it
	killed func()
}

func (n *hNotifier08) Notify(ctx context.Context, as ...*alert.Alert) (bool, error) {
	if !(n.crash && n.early) {
		n.calls++
		n.at = append(n.at, time.Now())
	}
	if n.crash {
		n.killed()
		<-ctx.Done()
		return false, ctx.Err()
	}
	return false, nil
}

type hInstance08 struct {
	pos      int
	log      *nflog.Log
	notifier *hNotifier08
	stage    Stage
	dedupAt  time.Time
	hadEntry bool
}

// VerifC08_Cluster: 2 instances both hold the same firing group and flush it; each
// runs the receiver's real stage (wait position x peer_timeout, dedup against its own
// real notification log, notify, record) and gossips its log entry to the others
// with an arbitrary delay, or loses it. An instance may die right after the receiver
// accepted the notification, before recording it, or while its request was still on the way
// (the receiver never got it). (a) Whatever is lost or delayed and
// whoever crashes, at least one instance that stays up sends the notification. (b) If
// every entry is delivered faster than the peer timeout, nobody crashes and no
// later-positioned instance flushes before an earlier-positioned one, exactly one
// instance sends. (c) An instance that has received an entry covering its pending
// notification before it decides stays silent.
//
//vf:quick unwind=16 decisions=400 goroutines=12 preempt=0 paths=400000
//vf:thorough unwind=16 decisions=600 goroutines=16 preempt=0 paths=4000000
//vf:expect reach=single-sender reach=duplicate-under-loss reach=crash-covered
func VerifC08_Cluster() {
	n := 2 // (a third instance multiplies loss/delay/crash patterns beyond what a run can finish; the thorough tier deepens the schedule and hold choices instead)
	peerTimeout := 15 * time.Second
	m := NewMetrics(prometheus.NewRegistry(), featurecontrol.NoopFlags{})
	insts := make([]*hInstance08, n)
	for i := 0; i < n; i++ {
		l, err := nflog.New(nflog.Options{Retention: time.Hour, Metrics: prometheus.NewRegistry()})
		if err != nil {
			panic(err)
		}
		inst := &hInstance08{pos: i, log: l, notifier: &hNotifier08{}}
		pos := i
		inst.stage = createReceiverStage("recv", []Integration{NewIntegration(inst.notifier, hRS08(true), "webhook", 0, "recv")},
			func() time.Duration { return time.Duration(pos) * peerTimeout }, l, m, eventrecorder.Recorder{})
		insts[i] = inst
	}
	// gossip: delivery of i's entry to j takes delay[i][j] or is lost
	healthy := true
	for i := 0; i < n; i++ {
		i := i
		insts[i].log.SetBroadcast(func(b []byte) {
			for j := 0; j < n; j++ {
				if j == i {
					continue
				}
				j := j
				if vfBool(fmt.Sprintf("lost.%d.%d", i, j)) {
					healthy = false
					continue
				}
				delay := vfSeconds(fmt.Sprintf("delay.%d.%d", i, j), 0, 40)
				if delay >= peerTimeout {
					healthy = false
				}
				vfGo(fmt.Sprintf("gossip-%d-%d", i, j), func() {
					vfAdvance(delay)
					if err := insts[j].log.Merge(b); err != nil {
						vfFail("merge-of-gossiped-entry-failed")
					}
				})
			}
		})
	}
	// at most one instance dies after the receiver accepted
	crasher := vfChoice("crasher", n+1) // n = nobody
	diesEarly := crasher < n && vfBool("diesBeforeTheReceiverGotIt")
	now := vfNow()
	a := &alert.Alert{}
	a.Labels = model.LabelSet{"alertname": "A"}
	a.StartsAt, a.UpdatedAt = now, now
	done := 0
	held := time.Duration(0)
	if vfBool("heldBeforeTheStage") {
		// (a grid: symbolic holds make the mutated wait arithmetic very slow to solve)
		held = []time.Duration{20 * time.Second, 7 * time.Second, 40 * time.Second}[vfChoice("held", 1+2*vfTier())]
	}
	prevSkew := time.Duration(0)
	for i := 0; i < n; i++ {
		inst := insts[i]
		// later-positioned instances tick no earlier than earlier-positioned ones
		skew := prevSkew + vfSeconds(fmt.Sprintf("skew.%d", i), 0, 20)
		prevSkew = skew
		ctx, cancel := context.WithTimeout(context.Background(), 5*time.Minute+time.Duration(i)*peerTimeout)
		if i == crasher {
			inst.notifier.crash = true
			inst.notifier.early = diesEarly
			inst.notifier.killed = cancel
		}
		// the flush tick the context carries may lie before the moment the receiver's
		// stage is reached (gossip settling after a start, a tick read late): everybody
		// is held for the same symbolic time
		vfGo(fmt.Sprintf("instance-%d", i), func() {
			defer cancel()
			vfAdvance(skew)
			c := WithGroupKey(ctx, "gk")
			c = WithReceiverName(c, "recv")
			c = WithRepeatInterval(c, 4*time.Hour)
			c = WithNow(c, vfNow())
			vfAdvance(held)
			inst.stage.Exec(c, promslog.NewNopLogger(), a)
			done++
		})
	}
	vfAdvance(time.Hour)
	vfAssert("every-instance-finished", done == n)
	total, survivors := 0, 0
	for i, inst := range insts {
		total += inst.notifier.calls
		if i != crasher {
			survivors += inst.notifier.calls
		}
	}
	// (a) fail-open
	vfAssert("at-least-one-notification", total >= 1)
	if crasher < n {
		// the receiver did get the crashed instance's notification, or a survivor sent one
		vfAssert("crash-never-loses-the-notification", insts[crasher].notifier.calls+survivors >= 1)
		if survivors >= 1 {
			vfReach("crash-covered")
		}
	}
	// (b) no duplicates when healthy
	if healthy && crasher == n {
		vfAssert("healthy-cluster-sends-exactly-once", total == 1)
		vfReach("single-sender")
	} else if total > 1 {
		vfReach("duplicate-under-loss")
	}
	for _, inst := range insts {
		vfAssert("never-twice-from-one-instance", inst.notifier.calls <= 1)
	}
}

// VerifC08_FullStateSync: instance A (position 0) is partitioned from B (position 1)
// while it notifies any subset of 2 (quick) / 3 (thorough) groups, so its per-entry
// gossip is lost. The partition heals and B receives A's whole notification log as
// one full-state message (MarshalBinary -> Merge, what push/pull does), any time
// before the repeat interval is over. When B then flushes the same groups it stays
// silent for every group A already notified (every entry of the message was merged,
// not only the first) and sends for the groups A never handled.
//
//vf:quick unwind=16 decisions=400 goroutines=8 preempt=0 paths=400000
//vf:thorough unwind=16 decisions=600 goroutines=10 preempt=0 paths=4000000
//vf:expect reach=all-covered reach=some-uncovered
func VerifC08_FullStateSync() {
	k := 2 + vfTier()
	peerTimeout := 15 * time.Second
	m := NewMetrics(prometheus.NewRegistry(), featurecontrol.NoopFlags{})
	mk := func(pos int) *hInstance08 {
		l, err := nflog.New(nflog.Options{Retention: 100 * time.Hour, Metrics: prometheus.NewRegistry()})
		if err != nil {
			panic(err)
		}
		inst := &hInstance08{pos: pos, log: l, notifier: &hNotifier08{}}
		inst.stage = createReceiverStage("recv", []Integration{NewIntegration(inst.notifier, hRS08(true), "webhook", 0, "recv")},
			func() time.Duration { return time.Duration(pos) * peerTimeout }, l, m, eventrecorder.Recorder{})
		return inst
	}
	A, B := mk(0), mk(1)
	A.log.SetBroadcast(func([]byte) {}) // partitioned: per-entry gossip is lost
	rebroadcast := 0
	B.log.SetBroadcast(func([]byte) { rebroadcast++ })
	now := vfNow()
	a := &alert.Alert{}
	a.Labels = model.LabelSet{"alertname": "A"}
	a.StartsAt, a.UpdatedAt = now.Add(-time.Minute), now.Add(-time.Minute)
	repeat := 4 * time.Hour
	exec := func(inst *hInstance08, g int) {
		ctx, cancel := context.WithTimeout(context.Background(), 5*time.Minute)
		defer cancel()
		c := WithGroupKey(ctx, fmt.Sprintf("gk%d", g))
		c = WithReceiverName(c, "recv")
		c = WithRepeatInterval(c, repeat)
		c = WithNow(c, vfNow())
		if _, _, err := inst.stage.Exec(c, promslog.NewNopLogger(), a); err != nil {
			vfFail("stage-failed")
		}
	}
	handled := make([]bool, k)
	nh := 0
	for g := 0; g < k; g++ {
		if vfBool(fmt.Sprintf("A.notified.%d", g)) {
			handled[g] = true
			nh++
			exec(A, g)
		}
	}
	vfAssert("A-sent-its-groups", A.notifier.calls == nh)
	// the partition heals some time before the repeat interval is over
	vfAdvance(vfSeconds("healAfter", 0, 3*3600))
	st, err := A.log.MarshalBinary()
	vfAssert("state-marshals", err == nil)
	vfAssert("full-state-merges", B.log.Merge(st) == nil)
	for g := 0; g < k; g++ {
		before := B.notifier.calls
		exec(B, g)
		if handled[g] {
			vfAssert("already-notified-group-stays-silent", B.notifier.calls == before)
		} else {
			vfAssert("unhandled-group-is-notified", B.notifier.calls == before+1)
		}
	}
	if nh == k {
		vfReach("all-covered")
	} else {
		vfReach("some-uncovered")
	}
}
