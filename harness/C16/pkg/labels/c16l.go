package labels

import (
	"regexp"

	"github.com/prometheus/common/model"
)

// VerifC16_MatchSemantics: every operator against label sets in which the label is
// present with an arbitrary (symbolic) value, present and empty, or absent. '=' and
// '!=' compare whole strings with a missing label read as ""; '=~' and '!~' test a
// fully anchored regular expression (checked on the pattern handed to the regexp
// engine and on concrete values); a list is a conjunction, a set of lists a
// disjunction.
//
//vf:bounds unwind=12 decisions=200 arith=bv
//vf:expect reach=equal reach=not-equal reach=regex reach=absent
func VerifC16_MatchSemantics() {
	op := MatchType(vfChoice("op", 4))
	var lset model.LabelSet
	var val string
	switch vfChoice("label", 3) {
	case 0:
		val = vfString("v", 2) // arbitrary two bytes
		lset = model.LabelSet{"job": model.LabelValue(val), "other": "x"}
	case 1:
		val = ""
		lset = model.LabelSet{"job": "", "other": "x"}
	case 2:
		val = ""
		lset = model.LabelSet{"other": "x"} // missing = ""
		vfReach("absent")
	}
	switch op {
	case MatchEqual, MatchNotEqual:
		want := vfString("want", 2)
		if vfBool("wantEmpty") {
			want = ""
		}
		m, err := NewMatcher(op, "job", want)
		vfAssert("new-ok", err == nil)
		got := Matchers{m}.Matches(lset)
		if op == MatchEqual {
			vfAssert("equals-compares-whole-strings", got == (val == want))
			vfReach("equal")
		} else {
			vfAssert("not-equals-is-the-negation", got == (val != want))
			vfReach("not-equal")
		}
		// conjunction and disjunction
		other, _ := NewMatcher(MatchEqual, "other", "x")
		never, _ := NewMatcher(MatchEqual, "other", "y")
		vfAssert("list-is-a-conjunction", Matchers{m, other}.Matches(lset) == got && !Matchers{m, never}.Matches(lset))
		a, b := Matchers{m}, Matchers{never}
		vfAssert("set-is-a-disjunction", MatcherSet{&b, &a}.Matches(lset) == got)
	default:
		// concrete patterns and values: anchoring
		pat := []string{"a|b", "a.*", "", "b"}[vfChoice("pattern", 4)]
		cv := []string{"a", "ab", "xa", "", "b"}[vfChoice("value", 5)]
		m, err := NewMatcher(op, "job", pat)
		vfAssert("new-ok", err == nil)
		vfAssert("regex-is-fully-anchored", m.re.String() == "^(?:"+pat+")$")
		want := regexp.MustCompile("^(?:" + pat + ")$").MatchString(cv)
		if op == MatchNotRegexp {
			want = !want
		}
		vfAssert("regex-match-on-whole-value", m.Matches(cv) == want)
		vfAssert("regex-missing-label-is-empty", Matchers{m}.Matches(model.LabelSet{"other": "x"}) == m.Matches(""))
		vfReach("regex")
	}
}
