package labels

import (
	"regexp"
	"unicode/utf8"

	"github.com/prometheus/common/model"
)

// VerifC16_MatchSemantics: every operator against label sets in which the label is
// present with an arbitrary (symbolic) value, present and empty, or absent. '=' and
// '!=' compare whole strings with a missing label read as ""; '=~' and '!~' test a
// fully anchored regular expression (checked on the pattern handed to the regexp
// engine and on concrete values); a list is a conjunction, a set of lists a
// disjunction.
//
//vf:bounds unwind=12 decisions=200 arith=bv
//vf:expect reach=equal reach=not-equal reach=regex reach=absent
func VerifC16_MatchSemantics() {
	op := MatchType(vfChoice("op", 4))
	var lset model.LabelSet
	var val string
	switch vfChoice("label", 3) {
	case 0:
		val = vfString("v", 2) // arbitrary two bytes
		lset = model.LabelSet{"job": model.LabelValue(val), "other": "x"}
	case 1:
		val = ""
		lset = model.LabelSet{"job": "", "other": "x"}
	case 2:
		val = ""
		lset = model.LabelSet{"other": "x"} // missing = ""
		vfReach("absent")
	}
	switch op {
	case MatchEqual, MatchNotEqual:
		want := vfString("want", 2)
		if vfBool("wantEmpty") {
			want = ""
		}
		m, err := NewMatcher(op, "job", want)
		vfAssert("new-ok", err == nil)
		got := Matchers{m}.Matches(lset)
		if op == MatchEqual {
			vfAssert("equals-compares-whole-strings", got == (val == want))
			vfReach("equal")
		} else {
			vfAssert("not-equals-is-the-negation", got == (val != want))
			vfReach("not-equal")
		}
		// conjunction and disjunction
		other, _ := NewMatcher(MatchEqual, "other", "x")
		never, _ := NewMatcher(MatchEqual, "other", "y")
		vfAssert("list-is-a-conjunction", Matchers{m, other}.Matches(lset) == got && !Matchers{m, never}.Matches(lset))
		a, b := Matchers{m}, Matchers{never}
		vfAssert("set-is-a-disjunction", MatcherSet{&b, &a}.Matches(lset) == got)
	default:
		// concrete patterns and values: anchoring
		pat := []string{"a|b", "a.*", "", "b", ".*", ".+"}[vfChoice("pattern", 6)]
		cv := []string{"a", "ab", "xa", "", "b"}[vfChoice("value", 5)]
		m, err := NewMatcher(op, "job", pat)
		vfAssert("new-ok", err == nil)
		vfAssert("regex-is-fully-anchored", m.re.String() == "^(?:"+pat+")$")
		want := regexp.MustCompile("^(?:" + pat + ")$").MatchString(cv)
		if op == MatchNotRegexp {
			want = !want
		}
		vfAssert("regex-match-on-whole-value", m.Matches(cv) == want)
		vfAssert("regex-missing-label-is-empty", Matchers{m}.Matches(model.LabelSet{"other": "x"}) == m.Matches(""))
		// every value of up to 3 arbitrary bytes, the regexp program run symbolically:
		// the pattern has to match the whole value (no prefix, suffix or substring match)
		if cv != "a" {
			vfReach("regex")
			return
		}
		sv := vfString("sv", vfChoice("svlen", 4))
		var whole bool
		switch pat {
		case "a|b":
			whole = sv == "a" || sv == "b"
		case "a.*":
			whole = len(sv) >= 1 && sv[0] == 'a'
			for i := 1; i < len(sv); i++ {
				whole = vfAnd(whole, sv[i] != '\n')
			}
		case "":
			whole = sv == ""
		case "b":
			whole = sv == "b"
		case ".*", ".+":
			// the dot does not match a line feed (no (?s) flag is added)
			whole = pat == ".*" || len(sv) >= 1
			for i := 0; i < len(sv); i++ {
				whole = vfAnd(whole, sv[i] != '\n')
			}
		}
		if op == MatchNotRegexp {
			whole = !whole
		}
		vfAssert("regex-matches-whole-symbolic-value", Matchers{m}.Matches(model.LabelSet{"job": model.LabelValue(sv)}) == whole)
		vfReach("regex")
	}
}

// VerifC16_ClassicRoundTrip: the classic parser on everything the printer emits. One
// or two matchers with arbitrary (symbolic) valid-UTF-8 values of up to 2 (quick) / 3 (thorough) bytes each
// and every operator are printed as a list and parsed back by ParseMatchers (brace
// and comma splitting, the matcher regular expression run symbolically, unescaping):
// the result is the same list, matcher by matcher, and a single matcher's printed
// form parses back through ParseMatcher.
//
//vf:quick unwind=40 decisions=900 paths=2000000 arith=bv steps=8000000
//vf:thorough unwind=60 decisions=1500 paths=20000000 arith=bv steps=30000000
//vf:expect reach=one reach=two
func VerifC16_ClassicRoundTrip() {
	n := 1 + vfChoice("matchers", 2)
	maxLen := 2 // (both tiers: three-byte values of two matchers took a quarter of an hour alone)
	var ms Matchers
	names := []string{"foo", "bar_2"}
	for i := 0; i < n; i++ {
		ml := maxLen
		if i > 0 {
			ml = 2 // (the second matcher keeps the quick tier's length)
		}
		v := vfString("value", vfChoice("len", ml+1))
		vfAssume(utf8.ValidString(v))
		// '=~' patterns must compile: keep regex matchers on the plain operators'
		// value space by only using the equality operators for arbitrary bytes
		op := MatchEqual
		if vfBool("negative") {
			op = MatchNotEqual
		}
		m, err := NewMatcher(op, names[i], v)
		vfAssert("new-ok", err == nil)
		ms = append(ms, m)
	}
	text := ms.String()
	got, err := ParseMatchers(text)
	vfAssert("printed-list-parses", err == nil)
	vfAssert("same-number-of-matchers", len(got) == n)
	for i := 0; i < n && i < len(got); i++ {
		vfAssert("same-matcher", got[i].Name == ms[i].Name && got[i].Type == ms[i].Type && got[i].Value == ms[i].Value)
	}
	one, err := ParseMatcher(ms[0].String())
	vfAssert("printed-matcher-parses", err == nil && one.Name == ms[0].Name && one.Type == ms[0].Type && one.Value == ms[0].Value)
	if n == 1 {
		vfReach("one")
	} else {
		vfReach("two")
	}
}
