package compat

import (
	"github.com/prometheus/common/promslog"

	"github.com/prometheus/alertmanager/matcher/parse"
	"github.com/prometheus/alertmanager/pkg/labels"
)

// inputs on which the two parsers accept/reject/agree/disagree in every combination
var hInputs16 = []string{
	`job=a`,        // both accept, same result
	`job="a"`,      // both accept, same result
	`job=~"a|b"`,   // regex, both accept
	`job="a\nb"`,   // both accept
	`job=a b`,      // classic only (unquoted value with a space)
	`job="\xab"`,   // classic only? (escape not understood by the UTF-8 parser)
	`job=\"`,       // classic only
	`"jöb"="a"`,    // UTF-8 only (quoted name)
	`jöb=a`,        // UTF-8 only (non-classic name)
	`job=="`,       // disagreement candidates / rejects
	`=a`,           // both reject
	`job`,          // both reject
	`job=a\`,       // trailing backslash
	`job="a\\"`,    // escaped backslash
	`job=a,b`,      // comma in unquoted value
	`job!~"^x$"`,   // anchors inside
	` job = a `,    // whitespace tolerated by classic
	`job=🙂`,        // emoji value
	`job="a\tb"`,   // both accept, different results (Go escape vs literal backslash)
	`job="\u00e9"`, // both accept, different results
}

// VerifC16_Fallback: the fallback parser on a pool of inputs covering every
// combination of verdicts of the two real parsers. Both reject => error; only the
// classic parser accepts => its result (the input is still accepted); both accept
// and differ => the classic result; otherwise the common / UTF-8 result; a single
// matcher wrapped in braces is rejected in UTF-8 and fallback mode; the UTF-8 mode
// returns exactly the UTF-8 parser's verdict.
//
//vf:bounds unwind=200 decisions=200 steps=8000000
//vf:expect reach=both-reject reach=classic-only reach=agree reach=utf8-only reach=brace reach=disagree
func VerifC16_Fallback() {
	l := promslog.NewNopLogger()
	fb := FallbackMatcherParser(l)
	u8 := UTF8MatcherParser(l)
	cl := ClassicMatcherParser(l)
	if vfBool("brace") {
		_, e1 := fb(`{job="a"}`, "test")
		_, e2 := u8(`{job="a"}`, "test")
		vfAssert("braces-rejected-for-single-matcher", e1 != nil && e2 != nil)
		vfReach("brace")
		return
	}
	in := hInputs16[vfChoice("input", len(hInputs16))]
	nm, nerr := parse.Matcher(in)
	cm, cerr := labels.ParseMatcher(in)
	m, err := fb(in, "test")
	same := func(a, b *labels.Matcher) bool {
		return a != nil && b != nil && a.Type == b.Type && a.Name == b.Name && a.Value == b.Value
	}
	um, uerr := u8(in, "test")
	vfAssert("utf8-mode-is-the-utf8-parser", (uerr == nil) == (nerr == nil) && (uerr != nil || same(um, nm)))
	km, kerr := cl(in, "test")
	vfAssert("classic-mode-is-the-classic-parser", (kerr == nil) == (cerr == nil) && (kerr != nil || same(km, cm)))
	switch {
	case nerr != nil && cerr != nil:
		vfAssert("both-reject-is-an-error", err != nil)
		vfReach("both-reject")
	case nerr != nil:
		vfAssert("classic-only-still-accepted-with-classic-result", err == nil && same(m, cm))
		vfReach("classic-only")
	case cerr != nil:
		vfAssert("utf8-only-accepted", err == nil && same(m, nm))
		vfReach("utf8-only")
	case !same(nm, cm):
		vfAssert("disagreement-yields-classic", err == nil && same(m, cm))
		vfReach("disagree")
	default:
		vfAssert("agreement-yields-common", err == nil && same(m, nm))
		vfReach("agree")
	}
}

// VerifC16_FallbackSymbolic: the same decision table for every input of the form
// job=<v> with v any 1-2 (quick) / 1-3 (thorough) bytes (valid UTF-8 or not: quotes,
// backslashes, every kind of white space, multi-byte characters), both real parsers and
// the classic parser's regular expression run symbolically. Both reject => error; only
// one accepts => its result; both accept => the classic result wherever the two differ.
//
//vf:quick unwind=200 decisions=1500 paths=2000000 arith=bv steps=30000000
//vf:thorough unwind=300 decisions=2500 paths=20000000 arith=bv steps=80000000
//vf:expect reach=both-reject reach=classic-only reach=agree reach=disagree
func VerifC16_FallbackSymbolic() {
	l := promslog.NewNopLogger()
	fb := FallbackMatcherParser(l)
	n := 1 + vfChoice("len", 2+vfTier())
	v := vfString("v", n)
	// (job=~... would make v a regular expression: patterns are not symbolic, see Fallback)
	vfAssume(v[0] != '~')
	in := "job=" + v
	nm, nerr := parse.Matcher(in)
	cm, cerr := labels.ParseMatcher(in)
	m, err := fb(in, "test")
	same := func(a, b *labels.Matcher) bool {
		return a != nil && b != nil && a.Type == b.Type && a.Name == b.Name && a.Value == b.Value
	}
	switch {
	case nerr != nil && cerr != nil:
		vfAssert("both-reject-is-an-error", err != nil)
		vfReach("both-reject")
	case nerr != nil:
		vfAssert("classic-only-still-accepted-with-classic-result", err == nil && same(m, cm))
		vfReach("classic-only")
	case cerr != nil:
		vfAssert("utf8-only-accepted", err == nil && same(m, nm))
	case !same(nm, cm):
		vfAssert("disagreement-yields-classic", err == nil && same(m, cm))
		vfReach("disagree")
	default:
		vfAssert("agreement-yields-common", err == nil && same(m, nm))
		vfReach("agree")
	}
}
