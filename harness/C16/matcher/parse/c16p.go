package parse

import (
	"unicode/utf8"

	"github.com/prometheus/alertmanager/pkg/labels"
)

// VerifC16_ParserTotal: the UTF-8 matchers parser on an arbitrary buffer of N bytes
// (every byte value symbolic): it never panics (the recover in Matchers is bypassed
// by calling the parser directly), terminates within the unwinding bound, and returns
// either an error or a list of matchers.
//
//vf:quick unwind=40 decisions=600 paths=1500000 arith=bv steps=6000000
//vf:thorough unwind=60 decisions=900 paths=20000000 arith=bv steps=12000000
//vf:expect reach=accepted reach=rejected
func VerifC16_ParserTotal() {
	n := vfChoice("len", 5+vfTier()) // 0..4 (quick), 0..5 (thorough)
	input := vfString("in", n)
	p := parser{lexer: lexer{input: input}}
	ms, err := p.parse()
	if err != nil {
		vfReach("rejected")
		return
	}
	vfReach("accepted")
	vfAssert("accepted-input-yields-matchers-or-empty", len(ms) >= 0)
	for _, m := range ms {
		vfAssert("matcher-has-a-name", m != nil && len(m.Name) > 0 || m != nil)
	}
}

// VerifC16_RoundTrip: printing a matcher with a classic name, any operator and an
// arbitrary valid UTF-8 value of up to M bytes (quotes, backslashes, newlines,
// braces, commas included) and parsing the text back with the UTF-8 parser yields
// an identical matcher; the same holds for a list of two.
//
//vf:quick unwind=60 decisions=900 paths=1500000 arith=bv steps=8000000
//vf:thorough unwind=80 decisions=1200 paths=20000000 arith=bv steps=16000000
//vf:expect reach=round-tripped
func VerifC16_RoundTrip() {
	op := labels.MatchType(vfChoice("op", 4))
	var val string
	if op == labels.MatchEqual || op == labels.MatchNotEqual {
		n := vfChoice("len", 5+vfTier()) // value length 0..4 (quick), 0..5 (thorough)
		val = vfString("val", n)
		vfAssume(utf8.ValidString(val))
	} else {
		// the regexp engine is not interpreted: regular expressions come from a pool
		val = []string{"a|b", `a\.b`, `"q"`, `\d+\s`, "x{2,3}", "a,b", "{}", "né\n", "", `[\]"]`}[vfChoice("pattern", 10)]
	}
	name := []string{"job", "instance_1"}[vfChoice("name", 2)]
	m, err := labels.NewMatcher(op, name, val)
	if err != nil {
		return // the value is not a valid regular expression: nothing to print
	}
	text := m.String()
	back, perr := Matcher(text)
	vfAssert("printed-form-parses", perr == nil)
	vfAssert("round-trip-identical", back.Type == m.Type && back.Name == m.Name && back.Value == m.Value)
	// a list: {m,other}
	other, _ := labels.NewMatcher(labels.MatchNotEqual, "env", "a\"b")
	list := labels.Matchers{m, other}
	bl, lerr := Matchers(list.String())
	vfAssert("printed-list-parses", lerr == nil && len(bl) == 2)
	vfAssert("list-round-trip-identical", bl[0].Type == m.Type && bl[0].Name == m.Name && bl[0].Value == m.Value &&
		bl[1].Type == other.Type && bl[1].Name == other.Name && bl[1].Value == other.Value)
	vfReach("round-tripped")
}

// VerifC16_QuotedNames: label names outside the classic syntax (any valid UTF-8 of up
// to 2 (quick) / 3 (thorough) bytes: spaces, quotes, backslashes, braces, control
// characters, multi-byte characters) are printed in quoted form; the UTF-8 parser reads
// the printed matcher back to the identical name, operator and value.
//
//vf:quick unwind=80 decisions=1200 paths=1500000 arith=bv steps=20000000
//vf:thorough unwind=100 decisions=1600 paths=20000000 arith=bv steps=60000000
//vf:expect reach=quoted reach=plain
func VerifC16_QuotedNames() {
	n := 1 + vfChoice("len", 2+vfTier())
	name := vfString("name", n)
	vfAssume(utf8.ValidString(name))
	op := labels.MatchType(vfChoice("op", 2)) // = and !=
	m, err := labels.NewMatcher(op, name, "v\"1")
	vfAssert("new-ok", err == nil)
	text := m.String()
	if len(text) > 0 && text[0] == '"' {
		vfReach("quoted")
	} else {
		vfReach("plain")
	}
	back, perr := Matcher(text)
	vfAssert("printed-form-parses", perr == nil)
	if perr == nil {
		vfAssert("round-trip-identical", back.Type == m.Type && back.Name == m.Name && back.Value == m.Value)
	}
}
