package silence

import (
	"bytes"
	"context"
	"regexp"
	"time"

	"github.com/prometheus/client_golang/prometheus"
	"github.com/prometheus/common/model"
	"github.com/prometheus/common/promslog"
	"google.golang.org/protobuf/types/known/timestamppb"

	"github.com/prometheus/alertmanager/featurecontrol"
	"github.com/prometheus/alertmanager/marker"
	"github.com/prometheus/alertmanager/matcher/compat"
	pb "github.com/prometheus/alertmanager/silence/silencepb"
)

func hNew02(retention time.Duration) *Silences {
	s, err := New(Options{Retention: retention, Metrics: prometheus.NewRegistry()})
	if err != nil {
		panic(err)
	}
	return s
}

// matcher-set pool: equality, negation, regex, two OR-ed sets, a UTF-8 name
func hMatcherSets02(k int) []*pb.MatcherSet {
	eq := func(n, v string) *pb.Matcher { return &pb.Matcher{Type: pb.Matcher_EQUAL, Name: n, Pattern: v} }
	switch k {
	case 0:
		return []*pb.MatcherSet{{Matchers: []*pb.Matcher{eq("job", "a")}}}
	case 1:
		return []*pb.MatcherSet{{Matchers: []*pb.Matcher{{Type: pb.Matcher_REGEXP, Name: "job", Pattern: "a|b"}, {Type: pb.Matcher_NOT_EQUAL, Name: "env", Pattern: "dev"}}}}
	case 2:
		return []*pb.MatcherSet{
			{Matchers: []*pb.Matcher{eq("job", "b")}},
			{Matchers: []*pb.Matcher{eq("env", "prod"), {Type: pb.Matcher_NOT_REGEXP, Name: "job", Pattern: "b.*"}}},
		}
	default:
		return []*pb.MatcherSet{{Matchers: []*pb.Matcher{eq("tëam", "ü")}}}
	}
}

var hLsets02 = []model.LabelSet{
	{"job": "a", "env": "prod"},
	{"job": "b", "env": "dev"},
	{"job": "c", "tëam": "ü"},
}

// hMatch02 is the reference meaning of a silence's matchers (written from the
// documentation: OR over sets, AND inside a set, missing label = "", anchored regex).
func hMatch02(sil *pb.Silence, lset model.LabelSet) bool {
	for _, ms := range sil.MatcherSets {
		all := true
		for _, m := range ms.Matchers {
			v := string(lset[model.LabelName(m.Name)])
			var ok bool
			switch m.Type {
			case pb.Matcher_EQUAL:
				ok = v == m.Pattern
			case pb.Matcher_NOT_EQUAL:
				ok = v != m.Pattern
			case pb.Matcher_REGEXP:
				ok = regexp.MustCompile("^(?:" + m.Pattern + ")$").MatchString(v)
			case pb.Matcher_NOT_REGEXP:
				ok = !regexp.MustCompile("^(?:" + m.Pattern + ")$").MatchString(v)
			}
			if !ok {
				all = false
			}
		}
		if all {
			return true
		}
	}
	return false
}

// hOracle02: ids of all stored silences that match lset, with a branch-free
// "is active now" flag each (start <= now <= end).
func hOracle02(s *Silences, lset model.LabelSet, now time.Time) (ids []string, active []bool) {
	for id, msil := range s.st {
		sil := msil.Silence
		if !hMatch02(sil, lset) {
			continue
		}
		ids = append(ids, id)
		active = append(active, vfAnd(!now.Before(sil.StartsAt.AsTime()), !now.After(sil.EndsAt.AsTime())))
	}
	return ids, active
}

func hHas02(xs []string, x string) bool {
	for _, y := range xs {
		if y == x {
			return true
		}
	}
	return false
}

type hEnv02 struct {
	s  *Silences
	sl *Silencer
	mk marker.AlertMarker
}

func (e *hEnv02) check(tag string, lset model.LabelSet) {
	ctx := marker.WithContext(context.Background(), e.mk)
	got := e.sl.Mutes(ctx, lset)
	now := vfNow()
	ids, active := hOracle02(e.s, lset, now)
	any := false
	for _, a := range active {
		any = vfOr(any, a)
	}
	vfAssert("mutes-equals-stored-silences", got == any)
	st := e.mk.Status(lset.Fingerprint())
	// the marker lists exactly the active matching silences
	ok := true
	n := 0
	for i, id := range ids {
		ok = vfAnd(ok, hHas02(st.SilencedBy, id) == active[i])
		n += vfIteInt(active[i], 1, 0)
	}
	vfAssert("marker-ids-equal-oracle", vfAnd(ok, len(st.SilencedBy) == n))
	if got {
		vfReach("muted")
	} else {
		vfReach("not-muted")
	}
}

// VerifC02_History: bounded histories from the empty store. A silence is created
// through Set; then k slots, each an arbitrary clock advance followed by an arbitrary
// operation (new silence, edit, expire, replicated merge of an arbitrary version,
// GC, snapshot reload, alert GC callback); after every slot the Silencer's verdict
// and the marker ids must equal a direct evaluation of all stored silences.
//
//vf:quick unwind=12 decisions=400 paths=400000
//vf:thorough unwind=16 decisions=600 paths=4000000
//vf:expect reach=muted reach=not-muted reach=op-merge-changed reach=op-expire reach=op-reload reach=op-edit reach=op-new
func VerifC02_History() {
	k := 2
	if vfTier() > 0 {
		k = 3
	}
	// the application initialises matcher compatibility from its (default) flags
	compat.InitFromFlags(promslog.NewNopLogger(), featurecontrol.NoopFlags{})
	e := &hEnv02{s: hNew02(time.Hour), mk: marker.NewAlertMarker()}
	e.sl = NewSilencer(e.s, promslog.NewNopLogger(), e.s.recorder)
	ctx := context.Background()
	// (matcher set, alert, second alert): matching through equality, regex+negation,
	// an OR-ed second set, a UTF-8 name, and one pair that does not match
	pair := [][3]int{{0, 0, 1}, {1, 0, 1}, {2, 0, 1}, {3, 2, 0}, {0, 1, 0}, {2, 1, 2}}[vfChoice("pair", 4)]
	lset := hLsets02[pair[1]]
	other := hLsets02[pair[2]]

	now := vfNow()
	s1 := &pb.Silence{
		MatcherSets: hMatcherSets02(pair[0]),
		StartsAt:    timestamppb.New(now.Add(vfSeconds("s1.startIn", 0, 3600))),
		EndsAt:      timestamppb.New(now.Add(time.Hour + vfSeconds("s1.len", 0, 7200))),
		Comment:     "one",
	}
	vfAssert("create-ok", e.s.Set(ctx, s1) == nil)
	id1 := s1.Id
	e.check("after-create", lset)

	for slot := 0; slot < k; slot++ {
		vfAdvance(vfSeconds("advance", 0, 4*3600))
		now = vfNow()
		switch vfChoice("op", 8) {
		case 0: // nothing but the passage of time
		case 1: // a second silence
			s2 := &pb.Silence{
				MatcherSets: hMatcherSets02(vfChoice("m2", 2)),
				StartsAt:    timestamppb.New(now.Add(vfSeconds("s2.startIn", 0, 3600))),
				EndsAt:      timestamppb.New(now.Add(time.Hour + vfSeconds("s2.len", 0, 7200))),
				Comment:     "two",
			}
			if e.s.Set(ctx, s2) == nil {
				vfReach("op-new")
			}
		case 2: // edit the end (and only the end) of silence 1 through the API
			cur, err := e.s.QueryOne(ctx, QIDs(id1))
			if err == nil {
				cur.EndsAt = timestamppb.New(now.Add(vfSeconds("edit.endIn", 0, 7200)))
				if e.s.Set(ctx, cur) == nil {
					vfReach("op-edit")
					if cur.Id != id1 {
						vfReach("op-edit-new-id")
					}
				}
			}
		case 3:
			if e.s.Expire(ctx, id1) == nil {
				vfReach("op-expire")
			}
		case 4: // a replicated version of silence 1: late, duplicate, older or newer
			base := time.Unix(clockEpoch02, 0).UTC()
			v := &pb.MeshSilence{
				Silence: &pb.Silence{
					Id:          id1,
					MatcherSets: s1.MatcherSets,
					StartsAt:    timestamppb.New(base.Add(vfSeconds("mg.start", 0, 12*3600))),
					EndsAt:      timestamppb.New(base.Add(vfSeconds("mg.end", 0, 24*3600))),
					UpdatedAt:   timestamppb.New(base.Add(vfSeconds("mg.upd", 0, 12*3600))),
					Comment:     "merged",
				},
			}
			vfAssume(!v.Silence.EndsAt.AsTime().Before(v.Silence.StartsAt.AsTime()))
			v.ExpiresAt = timestamppb.New(v.Silence.EndsAt.AsTime().Add(time.Hour))
			b, err := marshalMeshSilence(v)
			vfAssert("marshal-ok", err == nil)
			before, had := e.s.st[id1]
			vfAssert("merge-ok", e.s.Merge(b) == nil)
			if after, ok := e.s.st[id1]; ok && (!had || after != before) {
				vfReach("op-merge-changed")
			}
		case 5:
			_, err := e.s.GC()
			vfAssert("gc-ok", err == nil)
		case 6: // restart: snapshot, reload into a fresh store, fresh Silencer
			var buf bytes.Buffer
			_, err := e.s.Snapshot(&buf)
			vfAssert("snapshot-ok", err == nil)
			ns := hNew02(time.Hour)
			vfAssert("load-ok", ns.loadSnapshot(&buf) == nil)
			e.s = ns
			e.sl = NewSilencer(ns, promslog.NewNopLogger(), ns.recorder)
			vfReach("op-reload")
		case 7: // the alert was garbage collected: cache entry dropped
			e.sl.PostGC(model.Fingerprints{lset.Fingerprint()})
		}
		e.check("after-slot", lset)
	}
	e.check("final-other", other)
}

const clockEpoch02 = 946684800

// VerifC02_Concurrent: queries and updates at the same time. One silence exists (its
// mute verdict possibly cached already); then one (quick) / two (thorough) Mutes calls
// run concurrently with one update (a new matching silence, expiry, a replicated newer
// or older version, GC, the alert-GC callback), every interleaving at lock / atomic
// granularity within the preemption bound. A concurrent verdict is the one before or
// the one after the update (never a third), and once everything has returned the next
// verdict and the marker ids equal the direct evaluation of the stored silences again.
//
//vf:quick unwind=12 decisions=500 paths=600000 goroutines=6 preempt=1
//vf:thorough unwind=16 decisions=700 paths=6000000 goroutines=8 preempt=1
//vf:expect reach=muted reach=not-muted reach=verdict-changed
func VerifC02_Concurrent() {
	compat.InitFromFlags(promslog.NewNopLogger(), featurecontrol.NoopFlags{})
	e := &hEnv02{s: hNew02(time.Hour), mk: marker.NewAlertMarker()}
	e.sl = NewSilencer(e.s, promslog.NewNopLogger(), e.s.recorder)
	ctx := context.Background()
	pair := [][3]int{{0, 0, 1}, {2, 0, 1}, {1, 0, 1}, {3, 2, 0}}[vfChoice("pair", 2+vfTier())]
	lset := hLsets02[pair[1]]
	now := vfNow()
	s1 := &pb.Silence{
		MatcherSets: hMatcherSets02(pair[0]),
		StartsAt:    timestamppb.New(now.Add(vfSeconds("s1.startIn", 0, 3600))),
		EndsAt:      timestamppb.New(now.Add(time.Hour + vfSeconds("s1.len", 0, 7200))),
		Comment:     "one",
	}
	vfAssert("create-ok", e.s.Set(ctx, s1) == nil)
	id1 := s1.Id
	vfAdvance(vfSeconds("advance", 0, 4*3600))
	if vfBool("cached") {
		e.check("warm-up", lset)
	}
	now = vfNow()
	verdict := func() bool {
		_, active := hOracle02(e.s, lset, now)
		any := false
		for _, a := range active {
			any = vfOr(any, a)
		}
		return any
	}
	before := verdict()

	op := vfChoice("op", 5)
	var s2 *pb.Silence
	var mergeBytes []byte
	switch op {
	case 0:
		s2 = &pb.Silence{
			MatcherSets: hMatcherSets02(pair[0]),
			StartsAt:    timestamppb.New(now.Add(vfSeconds("s2.startIn", 0, 3600))),
			EndsAt:      timestamppb.New(now.Add(time.Hour + vfSeconds("s2.len", 0, 7200))),
			Comment:     "two",
		}
	case 2:
		base := time.Unix(clockEpoch02, 0).UTC()
		v := &pb.MeshSilence{
			Silence: &pb.Silence{
				Id:          id1,
				MatcherSets: s1.MatcherSets,
				StartsAt:    timestamppb.New(base.Add(vfSeconds("mg.start", 0, 12*3600))),
				EndsAt:      timestamppb.New(base.Add(vfSeconds("mg.end", 0, 24*3600))),
				UpdatedAt:   timestamppb.New(base.Add(vfSeconds("mg.upd", 0, 12*3600))),
				Comment:     "merged",
			},
		}
		vfAssume(!v.Silence.EndsAt.AsTime().Before(v.Silence.StartsAt.AsTime()))
		v.ExpiresAt = timestamppb.New(v.Silence.EndsAt.AsTime().Add(time.Hour))
		b, err := marshalMeshSilence(v)
		vfAssert("marshal-ok", err == nil)
		mergeBytes = b
	}
	nq := 1 + vfTier()
	got := make([]bool, nq)
	done := make(chan struct{}, nq+1)
	for q := 0; q < nq; q++ {
		q := q
		vfGo("query", func() {
			got[q] = e.sl.Mutes(marker.WithContext(context.Background(), marker.NewAlertMarker()), lset)
			done <- struct{}{}
		})
	}
	vfGo("update", func() {
		switch op {
		case 0:
			e.s.Set(ctx, s2)
		case 1:
			e.s.Expire(ctx, id1)
		case 2:
			if e.s.Merge(mergeBytes) != nil {
				vfFail("merge-failed")
			}
		case 3:
			e.s.GC()
		case 4:
			e.sl.PostGC(model.Fingerprints{lset.Fingerprint()})
		}
		done <- struct{}{}
	})
	for i := 0; i < nq+1; i++ {
		<-done
	}
	after := verdict()
	for q := 0; q < nq; q++ {
		vfAssert("concurrent-verdict-is-the-one-before-or-after-the-update", vfOr(got[q] == before, got[q] == after))
	}
	if before != after {
		vfReach("verdict-changed")
	}
	e.check("after-quiescence", lset)
	e.check("after-quiescence-again", lset)
}
