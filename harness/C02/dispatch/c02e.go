package dispatch

import (
	"context"
	"errors"
	"time"

	"github.com/prometheus/client_golang/prometheus"
	"github.com/prometheus/common/model"
	"github.com/prometheus/common/promslog"
	"google.golang.org/protobuf/types/known/timestamppb"

	"github.com/prometheus/alertmanager/alert"
	"github.com/prometheus/alertmanager/config"
	"github.com/prometheus/alertmanager/eventrecorder"
	"github.com/prometheus/alertmanager/featurecontrol"
	"github.com/prometheus/alertmanager/inhibit"
	"github.com/prometheus/alertmanager/marker"
	"github.com/prometheus/alertmanager/nflog"
	"github.com/prometheus/alertmanager/notify"
	"github.com/prometheus/alertmanager/provider/mem"
	"github.com/prometheus/alertmanager/silence"
	"github.com/prometheus/alertmanager/silence/silencepb"
	"github.com/prometheus/alertmanager/timeinterval"
	"github.com/prometheus/alertmanager/types"
)

type hRSe02 bool

func (r hRSe02) SendResolved() bool { return bool(r) }

// hRecvE02 is the receiver at the end of the real pipeline: per delivery attempt it
// accepts, fails recoverably or rejects, as scripted; it records when it was sent what.
type hRecvE02 struct {
	script []int
	at     []time.Time
	firing []int
	okAt   []time.Time
}

func (n *hRecvE02) Notify(ctx context.Context, as ...*alert.Alert) (bool, error) {
	i := len(n.at)
	n.at = append(n.at, time.Now())
	f := 0
	for _, a := range as {
		if !a.Resolved() {
			f++
		}
	}
	n.firing = append(n.firing, f)
	o := 0
	if i < len(n.script) {
		o = n.script[i]
	}
	switch o {
	case 1:
		return true, errors.New("503 try again")
	case 2:
		return false, errors.New("400 rejected")
	}
	n.okAt = append(n.okAt, time.Now())
	return false, nil
}

// VerifC02_EndToEnd: silences through the assembled path (real provider, dispatcher
// started with Run, real pipeline with the real silencer over the real silence store),
// one fixed fair schedule, group_interval from a grid, repeat interval minimal so that
// every flush of the firing group notifies. At a symbolic moment a silence matching the
// alert is created through Set (starting at once or a symbolic while later), and at a
// later symbolic moment it is expired (or it ends by itself). No notification is sent
// at a flush while the silence is active; the first flush after it became active is
// already silent, and the first flush after it ended notifies again.
//
//vf:quick unwind=24 decisions=900 goroutines=48 preempt=0 sched=fifo timerfires=120 paths=400000 steps=40000000
//vf:thorough unwind=24 decisions=1400 goroutines=96 preempt=0 sched=fifo timerfires=300 paths=4000000 steps=100000000
//vf:expect reach=silent-flush reach=notified-again
func VerifC02_EndToEnd() {
	ctx, cancel := context.WithCancel(context.Background())
	defer cancel()
	logger := promslog.NewNopLogger()
	alerts, err := mem.NewAlerts(ctx, 100000*time.Hour, 0, nil, logger, eventrecorder.Recorder{}, prometheus.NewRegistry(), nil)
	if err != nil {
		panic(err)
	}
	sils, err := silence.New(silence.Options{Retention: time.Hour, Metrics: prometheus.NewRegistry()})
	if err != nil {
		panic(err)
	}
	nlog, err := nflog.New(nflog.Options{Retention: 100 * time.Hour, Metrics: prometheus.NewRegistry()})
	if err != nil {
		panic(err)
	}
	gm := marker.NewGroupMarker()
	recv := &hRecvE02{}
	pipeline := notify.NewPipelineBuilder(prometheus.NewRegistry(), featurecontrol.NoopFlags{}, eventrecorder.Recorder{}).New(
		map[string][]notify.Integration{"r": {notify.NewIntegration(recv, hRSe02(true), "webhook", 0, "r")}},
		func() time.Duration { return 0 },
		inhibit.NewInhibitor(alerts, nil, logger, eventrecorder.Recorder{}),
		silence.NewSilencer(sils, logger, eventrecorder.Recorder{}),
		timeinterval.NewIntervener(nil), gm, nlog, nil)
	giD := time.Minute
	gw, gi := model.Duration(0), model.Duration(giD)
	ri := model.Duration(time.Nanosecond)
	route := NewRoute(&config.Route{Receiver: "r", GroupBy: []model.LabelName{"alertname"}, GroupWait: &gw, GroupInterval: &gi, RepeatInterval: &ri}, nil)
	d := NewDispatcher(alerts, route, pipeline, gm, func(d time.Duration) time.Duration { return d },
		100000*time.Hour, nil, logger, eventrecorder.Recorder{}, nil, nil)
	vfGo("dispatcher", func() { d.Run(time.Now()) })
	defer func() {
		d.state.Store(DispatcherStateStopped)
		cancel()
		d.cancel()
		if vfNative() {
			d.finished.Wait()
		}
	}()
	vfAdvance(5 * time.Second)

	t0 := vfNow()
	a := &types.Alert{}
	a.Labels = model.LabelSet{"alertname": "A", "job": "j"}
	a.StartsAt, a.UpdatedAt = t0, t0
	a.EndsAt = t0.Add(1000 * time.Hour)
	if alerts.Put(ctx, a) != nil {
		vfFail("alert-not-accepted")
	}
	// flushes at t0, t0+gi, t0+2gi, ...; the silence is created strictly inside an
	// interval, active from activeFrom, until it is expired / ends at activeTo
	vfAdvance(vfSeconds("createAfter", 1, 50))
	startIn := time.Duration(0)
	if vfTier() > 0 && vfBool("startsLater") {
		startIn = vfSeconds("startIn", 1, 120)
	}
	activeFrom := vfNow().Add(startIn)
	maxLen := 150
	if vfTier() > 0 {
		maxLen = 400
	}
	ownEnd := activeFrom.Add(vfSeconds("length", 30, maxLen))
	s := &silencepb.Silence{
		MatcherSets: []*silencepb.MatcherSet{{Matchers: []*silencepb.Matcher{{Type: silencepb.Matcher_EQUAL, Name: "job", Pattern: "j"}}}},
		StartsAt:    timestamppb.New(activeFrom),
		EndsAt:      timestamppb.New(ownEnd),
		Comment:     "maintenance",
	}
	if sils.Set(ctx, s) != nil {
		vfFail("silence-not-created")
	}
	activeTo := ownEnd
	if vfBool("expiredByHand") {
		vfAdvance(startIn + vfSeconds("expireAfter", 1, maxLen))
		if vfNow().Before(ownEnd) {
			if sils.Expire(ctx, s.Id) != nil {
				vfFail("expire-failed")
			}
			activeTo = vfNow()
		}
	}
	// run two intervals past the end of the silence
	if dd := activeTo.Add(2*giD + time.Second).Sub(vfNow()); dd > 0 {
		vfAdvance(dd)
	}
	end := vfNow()
	// every flush tick t0+k*gi up to now: notified iff the silence is not active at the tick
	// (ticks exactly at a boundary instant are left open)
	sent := map[int]bool{}
	for _, at := range recv.at {
		k := int(at.Sub(t0) / giD)
		vfAssert("notifications-only-at-flush-ticks", at.Equal(t0.Add(time.Duration(k)*giD)))
		sent[k] = true
	}
	for k := 0; t0.Add(time.Duration(k) * giD).Before(end); k++ {
		tick := t0.Add(time.Duration(k) * giD)
		if tick.Equal(activeFrom) || tick.Equal(activeTo) {
			continue
		}
		if !tick.Before(activeFrom) && tick.Before(activeTo) {
			vfAssert("no-notification-while-the-silence-is-active", !sent[k])
			vfReach("silent-flush")
		} else {
			vfAssert("notified-at-every-flush-without-an-active-silence", sent[k])
			if !tick.Before(activeTo) {
				vfReach("notified-again")
			}
		}
	}
}
