package cluster

import (
	"errors"

	"github.com/hashicorp/memberlist"
	"github.com/prometheus/client_golang/prometheus"
	"github.com/prometheus/common/promslog"
	"google.golang.org/protobuf/proto"

	"github.com/prometheus/alertmanager/cluster/clusterpb"
)

// hState19 is a registered state that records what it was asked to merge; payloads
// starting with 'X' are malformed.
type hState19 struct {
	name   string
	merged []string
}

func (s *hState19) MarshalBinary() ([]byte, error) { return []byte("state-of-" + s.name), nil }
func (s *hState19) Merge(b []byte) error {
	if len(b) > 0 && b[0] == 'X' {
		return errors.New("malformed payload")
	}
	s.merged = append(s.merged, string(b))
	return nil
}

func hDelegate19() (*delegate, *hState19, *hState19) {
	sil, nfl := &hState19{name: "sil"}, &hState19{name: "nfl"}
	p := &Peer{states: map[string]State{"sil": sil, "nfl": nfl}}
	vec := func(n string) *prometheus.CounterVec {
		return prometheus.NewCounterVec(prometheus.CounterOpts{Name: n}, []string{"msg_type"})
	}
	d := &delegate{
		Peer:                 p,
		logger:               promslog.NewNopLogger(),
		messagesReceived:     vec("r"),
		messagesReceivedSize: vec("rs"),
		messagesSent:         vec("s"),
		messagesSentSize:     vec("ss"),
	}
	return d, sil, nfl
}

// VerifC19_FullState: a full-state message with up to 3 (quick) / 5 (thorough) parts, each with a
// registered or unknown key and a well-formed or malformed payload, in any order:
// every part with a registered key and a well-formed payload is merged exactly once,
// whatever precedes it; unknown keys and malformed payloads change nothing else and
// nothing panics.
//
//vf:quick unwind=12 decisions=200
//vf:thorough unwind=16 decisions=300 paths=2000000
//vf:expect reach=merged reach=skipped-unknown reach=skipped-malformed
func VerifC19_FullState() {
	d, sil, nfl := hDelegate19()
	n := 1 + vfChoice("parts", 3+2*vfTier())
	fs := &clusterpb.FullState{}
	wantSil, wantNfl := []string{}, []string{}
	for i := 0; i < n; i++ {
		key := []string{"sil", "nfl", "future-state"}[vfChoice("key", 3)]
		payload := []string{"ok-a", "ok-b", "ok-c", "ok-d", "ok-e"}[i]
		if vfBool("malformed") {
			payload = "X-bad"
			vfReach("skipped-malformed")
		} else {
			switch key {
			case "sil":
				wantSil = append(wantSil, payload)
				vfReach("merged")
			case "nfl":
				wantNfl = append(wantNfl, payload)
				vfReach("merged")
			default:
				vfReach("skipped-unknown")
			}
		}
		fs.Parts = append(fs.Parts, &clusterpb.Part{Key: key, Data: []byte(payload)})
	}
	buf, err := proto.Marshal(fs)
	vfAssert("marshal-ok", err == nil)
	d.MergeRemoteState(buf, true)
	same := func(a, b []string) bool {
		if len(a) != len(b) {
			return false
		}
		for i := range a {
			if a[i] != b[i] {
				return false
			}
		}
		return true
	}
	vfAssert("every-understood-part-merged-sil", same(sil.merged, wantSil))
	vfAssert("every-understood-part-merged-nfl", same(nfl.merged, wantNfl))
}

// VerifC19_Receive: single updates and undecodable input.
//
//vf:bounds unwind=8 decisions=100
//vf:expect reach=update-merged reach=update-ignored reach=garbage
func VerifC19_Receive() {
	d, sil, nfl := hDelegate19()
	switch vfChoice("case", 3) {
	case 0:
		key := []string{"sil", "nfl", "future-state"}[vfChoice("key", 3)]
		bad := vfBool("malformed")
		payload := "ok"
		if bad {
			payload = "X"
		}
		b, err := proto.Marshal(&clusterpb.Part{Key: key, Data: []byte(payload)})
		vfAssert("marshal-ok", err == nil)
		d.NotifyMsg(b)
		d.NotifyMsg(b) // duplicates are delivered again to the state, which must be idempotent
		okSil := key == "sil" && !bad
		okNfl := key == "nfl" && !bad
		vfAssert("update-reaches-its-state", (len(sil.merged) == 2) == okSil && (len(nfl.merged) == 2) == okNfl)
		vfAssert("update-reaches-only-its-state", (okSil || len(sil.merged) == 0) && (okNfl || len(nfl.merged) == 0))
		if okSil || okNfl {
			vfReach("update-merged")
		} else {
			vfReach("update-ignored")
		}
	case 1:
		// undecodable bytes on both receive paths: nothing merged, nothing panics
		garbage := []byte{0xff, 0xff, 0xff}
		d.NotifyMsg(garbage)
		d.MergeRemoteState(garbage, false)
		vfAssert("garbage-changes-nothing", len(sil.merged) == 0 && len(nfl.merged) == 0)
		vfReach("garbage")
	case 2:
		// the full state handed to a joining peer contains every registered state once
		b := d.LocalState(true)
		var fs clusterpb.FullState
		vfAssert("local-state-decodes", proto.Unmarshal(b, &fs) == nil)
		seen := map[string]int{}
		for _, p := range fs.Parts {
			seen[p.Key]++
			vfAssert("part-carries-its-state", string(p.Data) == "state-of-"+p.Key)
		}
		vfAssert("every-state-exactly-once", len(fs.Parts) == 2 && seen["sil"] == 1 && seen["nfl"] == 1)
		// and a peer merging it hands every part to the matching state
		d2, sil2, nfl2 := hDelegate19()
		d2.MergeRemoteState(b, true)
		vfAssert("joiner-gets-complete-state", len(sil2.merged) == 1 && sil2.merged[0] == "state-of-sil" && len(nfl2.merged) == 1 && nfl2.merged[0] == "state-of-nfl")
	}
}

// VerifC19_Broadcast: send-side routing. A small update is gossiped exactly once; an
// oversized one is queued for the reliable channel and delivered to every peer, or, if
// the queue is full, dropped and counted; failures to one peer do not stop the others.
//
//vf:bounds unwind=12 decisions=200 goroutines=8
//vf:expect reach=gossiped reach=oversized-delivered
//vf:note concurrent sender goroutines run in the engine; natively the same code runs under synctest
func VerifC19_Broadcast() {
	var gossiped [][]byte
	nodes := []*memberlist.Node{{Name: "p1"}, {Name: "p2"}, {Name: "p3"}}
	npeers := 1 + vfChoice("peers", 3)
	delivered := map[string][][]byte{}
	failFirst := vfBool("firstPeerFails")
	stopc := make(chan struct{})
	c := NewChannel("sil",
		// memberlist keeps the slices it is handed until they have been sent
		func(b []byte) { gossiped = append(gossiped, b) },
		func() []*memberlist.Node { return nodes[:npeers] },
		func(n *memberlist.Node, b []byte) error {
			if failFirst && n.Name == "p1" {
				return errors.New("unreachable")
			}
			delivered[n.Name] = append(delivered[n.Name], b)
			return nil
		},
		promslog.NewNopLogger(), stopc, prometheus.NewRegistry())
	big := vfBool("oversized")
	size := 16
	if big {
		size = 4 * MaxGossipPacketSize
	}
	// one update, or two back to back (the second of the same size or smaller)
	two := vfBool("twoUpdates")
	first := make([]byte, size)
	first[0] = '1'
	c.Broadcast(first)
	size2 := size
	if two {
		if vfBool("secondSmaller") {
			size2 = size - 3
		}
		second := make([]byte, size2)
		second[0] = '2'
		c.Broadcast(second)
	}
	vfAdvance(1) // let the sender goroutines run until everything is blocked
	payload := func(b []byte) (byte, int) {
		var p clusterpb.Part
		if proto.Unmarshal(b, &p) != nil || p.Key != "sil" || len(p.Data) == 0 {
			return 0, -1
		}
		return p.Data[0], len(p.Data)
	}
	nmsg := 1
	if two {
		nmsg = 2
	}
	wantTag, wantLen := []byte{'1', '2'}, []int{size, size2}
	if !big {
		vfAssert("small-update-gossiped-once", len(gossiped) == nmsg && len(delivered) == 0)
		for i := 0; i < nmsg && i < len(gossiped); i++ {
			tag, n := payload(gossiped[i])
			vfAssert("queued-update-keeps-its-own-content", tag == wantTag[i] && n == wantLen[i])
		}
		vfReach("gossiped")
	} else {
		vfAssert("oversized-not-gossiped", len(gossiped) == 0)
		for i := 0; i < npeers; i++ {
			got := delivered[nodes[i].Name]
			if failFirst && i == 0 {
				vfAssert("failing-peer-got-nothing", len(got) == 0)
				continue
			}
			vfAssert("oversized-sent-to-every-peer", len(got) == nmsg)
			// the two updates may overtake each other on the way to one peer, but each
			// arrives once with its own content
			seen := map[byte]int{}
			for _, b := range got {
				tag, n := payload(b)
				seen[tag]++
				vfAssert("delivered-update-has-its-own-content", (tag == '1' && n == size) || (tag == '2' && n == size2))
			}
			vfAssert("every-update-delivered-once", seen['1'] == 1 && (!two || seen['2'] == 1))
		}
		vfReach("oversized-delivered")
	}
	close(stopc)
}
