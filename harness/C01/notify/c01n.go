package notify

import (
	"context"
	"errors"
	"time"

	"github.com/prometheus/client_golang/prometheus"
	"github.com/prometheus/common/model"
	"github.com/prometheus/common/promslog"

	"github.com/prometheus/alertmanager/alert"
	"github.com/prometheus/alertmanager/eventrecorder"
	"github.com/prometheus/alertmanager/featurecontrol"
	"github.com/prometheus/alertmanager/nflog"
	"github.com/prometheus/alertmanager/nflog/nflogpb"
)

type hRS01 bool

func (r hRS01) SendResolved() bool { return bool(r) }

// hNotifier01: per flush one scripted outcome: 0 success, 1 unrecoverable error,
// 2 hang until the flush deadline.
type hNotifier01 struct {
	script []int
	flush  int
	calls  []int // flush index of every call
	listed [][]string
}

func (n *hNotifier01) Notify(ctx context.Context, as ...*alert.Alert) (bool, error) {
	n.calls = append(n.calls, n.flush)
	var names []string
	for _, a := range as {
		if !a.Resolved() {
			names = append(names, string(a.Labels["alertname"]))
		}
	}
	n.listed = append(n.listed, names)
	switch n.script[n.flush] {
	case 1:
		return false, errors.New("rejected")
	case 2:
		<-ctx.Done()
		return true, ctx.Err()
	}
	return false, nil
}

// VerifC01_FailureNeverDischarges: the receiver's real stage (wait, dedup, retry,
// record) with the real notification log over successive flushes of an unchanged
// firing group, one group_interval apart. While deliveries fail (rejected, or hanging
// until the flush deadline) nothing is recorded and every following flush tries again
// with the alert listed as firing; after the first success the notification is
// recorded and the unchanged group stays quiet until repeat_interval.
//
//vf:quick unwind=16 decisions=300 goroutines=6 preempt=1
//vf:thorough unwind=16 decisions=400 goroutines=6 preempt=1
//vf:expect reach=retried-next-interval reach=quiet-after-success
func VerifC01_FailureNeverDischarges() {
	l, err := nflog.New(nflog.Options{Retention: 100 * time.Hour, Metrics: prometheus.NewRegistry()})
	if err != nil {
		panic(err)
	}
	n := &hNotifier01{}
	nFlush := 3 + vfTier()
	for i := 0; i < nFlush; i++ {
		n.script = append(n.script, vfChoice("outcome", 3))
	}
	m := NewMetrics(prometheus.NewRegistry(), featurecontrol.NoopFlags{})
	stage := createReceiverStage("recv", []Integration{NewIntegration(n, hRS01(true), "webhook", 0, "recv")},
		func() time.Duration { return 0 }, l, m, eventrecorder.Recorder{})
	gi := vfSeconds("groupInterval", 1, 3600)
	repeat := 50 * time.Hour
	now := vfNow()
	a := &alert.Alert{}
	a.Labels = model.LabelSet{"alertname": "A"}
	a.StartsAt, a.UpdatedAt = now, now

	succeeded := false
	for f := 0; f < nFlush; f++ {
		n.flush = f
		tick := vfNow()
		ctx, cancel := context.WithTimeout(context.Background(), gi) // the flush deadline
		ctx = WithGroupKey(ctx, "gk")
		ctx = WithReceiverName(ctx, "recv")
		ctx = WithRepeatInterval(ctx, repeat)
		ctx = WithNow(ctx, tick)
		before := len(n.calls)
		_, _, ferr := stage.Exec(ctx, promslog.NewNopLogger(), a)
		cancel()
		called := len(n.calls) > before
		if succeeded {
			vfAssert("unchanged-group-quiet-until-repeat", !called && ferr == nil)
			vfReach("quiet-after-success")
		} else {
			vfAssert("every-flush-retries-until-success", called)
			vfAssert("alert-listed-as-firing", len(n.listed[len(n.listed)-1]) == 1)
			if f > 0 {
				vfReach("retried-next-interval")
			}
			ok := n.script[f] == 0
			vfAssert("flush-reports-failure-iff-delivery-failed", (ferr == nil) == ok)
			entries, qerr := l.Query(nflog.QGroupKey("gk"), nflog.QReceiver(hRecv01()))
			if ok {
				vfAssert("recorded-after-success", qerr == nil && len(entries) == 1)
				succeeded = true
			} else {
				vfAssert("failure-records-nothing", qerr == nflog.ErrNotFound)
			}
		}
		// next tick one group_interval after this one
		if d := tick.Add(gi).Sub(vfNow()); d > 0 {
			vfAdvance(d)
		}
	}
}

func hRecv01() *nflogpb.Receiver {
	return &nflogpb.Receiver{GroupName: "recv", Integration: "webhook", Idx: 0}
}

// hSlow01 accepts every delivery, after a while: the first attempt may fail with a
// recoverable error (retried after the backoff) and every attempt takes `takes`.
type hSlow01 struct {
	takes     time.Duration
	failFirst bool
	attempts  int
	delivered int
}

func (n *hSlow01) Notify(ctx context.Context, as ...*alert.Alert) (bool, error) {
	n.attempts++
	select {
	case <-time.After(n.takes):
	case <-ctx.Done():
		return true, ctx.Err()
	}
	if n.failFirst && n.attempts == 1 {
		return true, errors.New("503 try again")
	}
	n.delivered++
	return false, nil
}

// VerifC01_SiblingIndependence: a receiver with two integrations behind the real
// fan-out. One is broken in any way (rejects, hangs until the flush deadline, or
// works); the other accepts deliveries but is slow (each attempt takes up to 20 s and
// the first may fail recoverably, so it succeeds on a retry after the backoff). With a
// flush deadline of 5 minutes the healthy integration is sent the notification and it
// is recorded, whatever its sibling does and in every interleaving; the flush reports
// failure iff the sibling failed.
//
//vf:quick unwind=16 decisions=400 goroutines=8 preempt=1 paths=400000
//vf:thorough unwind=16 decisions=600 goroutines=8 preempt=1 paths=4000000
//vf:expect reach=sibling-failed reach=sibling-ok reach=retried
func VerifC01_SiblingIndependence() {
	l, err := nflog.New(nflog.Options{Retention: 100 * time.Hour, Metrics: prometheus.NewRegistry()})
	if err != nil {
		panic(err)
	}
	broken := &hNotifier01{script: []int{vfChoice("siblingOutcome", 3)}}
	slow := &hSlow01{takes: vfSeconds("takes", 0, 20), failFirst: vfBool("firstAttemptFails")}
	m := NewMetrics(prometheus.NewRegistry(), featurecontrol.NoopFlags{})
	ints := []Integration{NewIntegration(broken, hRS01(true), "pager", 0, "recv"), NewIntegration(slow, hRS01(true), "webhook", 1, "recv")}
	if vfBool("healthyFirst") {
		ints = []Integration{NewIntegration(slow, hRS01(true), "webhook", 0, "recv"), NewIntegration(broken, hRS01(true), "pager", 1, "recv")}
	}
	stage := createReceiverStage("recv", ints, func() time.Duration { return 0 }, l, m, eventrecorder.Recorder{})
	now := vfNow()
	a := &alert.Alert{}
	a.Labels = model.LabelSet{"alertname": "A"}
	a.StartsAt, a.UpdatedAt = now, now
	ctx, cancel := context.WithTimeout(context.Background(), 5*time.Minute)
	defer cancel()
	ctx = WithGroupKey(ctx, "gk")
	ctx = WithReceiverName(ctx, "recv")
	ctx = WithRepeatInterval(ctx, 4*time.Hour)
	ctx = WithNow(ctx, now)
	_, _, ferr := stage.Exec(ctx, promslog.NewNopLogger(), a)
	vfAssert("healthy-integration-was-sent-the-notification", slow.delivered == 1)
	idx := uint32(1)
	if ints[0].Name() == "webhook" {
		idx = 0
	}
	entries, qerr := l.Query(nflog.QGroupKey("gk"), nflog.QReceiver(&nflogpb.Receiver{GroupName: "recv", Integration: "webhook", Idx: idx}))
	vfAssert("healthy-integration's-notification-recorded", qerr == nil && len(entries) == 1)
	vfAssert("flush-fails-iff-the-sibling-failed", (ferr == nil) == (broken.script[0] == 0))
	if slow.failFirst {
		vfAssert("retried-after-recoverable-error", slow.attempts == 2)
		vfReach("retried")
	}
	if broken.script[0] == 0 {
		vfReach("sibling-ok")
	} else {
		vfReach("sibling-failed")
	}
}

// hLister01 records, per delivery, which alerts were listed as firing.
type hLister01 struct {
	deliveries [][]string
}

func (n *hLister01) Notify(ctx context.Context, as ...*alert.Alert) (bool, error) {
	var names []string
	for _, a := range as {
		if !a.Resolved() {
			names = append(names, string(a.Labels["alertname"]))
		}
	}
	n.deliveries = append(n.deliveries, names)
	return false, nil
}

// VerifC01_ChangingGroup: the group's membership changes between flushes. Over 2
// (quick) / 3 (thorough) flushes of one group through the receiver's real stage and the
// real notification log, each of three alerts is absent, firing or resolved at every
// flush, for both send_resolved settings and a repeat interval that never elapses.
// After every flush, every alert that is firing in the flushed batch has been listed as
// firing in the latest notification sent for the group: a newly firing alert is never
// left out because the group "looks unchanged" (same size, send_resolved off, ...).
//
//vf:quick unwind=16 decisions=500 goroutines=6 preempt=0 paths=600000
//vf:thorough unwind=16 decisions=800 goroutines=8 preempt=0 paths=6000000
//vf:expect reach=new-alert-notified reach=unchanged-quiet
func VerifC01_ChangingGroup() {
	l, err := nflog.New(nflog.Options{Retention: 100 * time.Hour, Metrics: prometheus.NewRegistry()})
	if err != nil {
		panic(err)
	}
	n := &hLister01{}
	m := NewMetrics(prometheus.NewRegistry(), featurecontrol.NoopFlags{})
	stage := createReceiverStage("recv", []Integration{NewIntegration(n, hRS01(vfBool("sendResolved")), "webhook", 0, "recv")},
		func() time.Duration { return 0 }, l, m, eventrecorder.Recorder{})
	names := []string{"A", "B", "C"}
	t0 := vfNow()
	latest := map[string]bool{} // firing alerts listed by the latest notification
	for f := 0; f < 2+vfTier(); f++ {
		now := vfNow()
		var batch []*alert.Alert
		firing := map[string]bool{}
		for _, name := range names {
			st := vfChoice("state", 3)
			if st == 0 {
				continue
			}
			a := &alert.Alert{}
			a.Labels = model.LabelSet{"alertname": model.LabelValue(name)}
			a.StartsAt, a.UpdatedAt = t0.Add(-time.Hour), now
			if st == 1 {
				a.EndsAt = now.Add(100 * time.Hour)
				firing[name] = true
			} else {
				a.EndsAt = now.Add(-time.Second)
			}
			batch = append(batch, a)
		}
		if len(batch) > 0 {
			ctx, cancel := context.WithTimeout(context.Background(), time.Minute)
			ctx = WithGroupKey(ctx, "gk")
			ctx = WithReceiverName(ctx, "recv")
			ctx = WithRepeatInterval(ctx, 1000*time.Hour)
			ctx = WithNow(ctx, now)
			before := len(n.deliveries)
			_, _, ferr := stage.Exec(ctx, promslog.NewNopLogger(), batch...)
			cancel()
			vfAssert("flush-ok", ferr == nil)
			if len(n.deliveries) > before {
				latest = map[string]bool{}
				for _, x := range n.deliveries[len(n.deliveries)-1] {
					latest[x] = true
				}
			}
			for name := range firing {
				vfAssert("every-firing-alert-is-in-the-latest-notification", latest[name])
			}
			if len(n.deliveries) > before && f > 0 {
				vfReach("new-alert-notified")
			} else if f > 0 {
				vfReach("unchanged-quiet")
			}
		}
		vfAdvance(5 * time.Minute)
	}
}
