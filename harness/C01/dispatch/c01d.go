package dispatch

import (
	"context"
	"errors"
	"log/slog"
	"time"

	"github.com/prometheus/common/model"
	"github.com/prometheus/common/promslog"

	"github.com/prometheus/alertmanager/alert"
	"github.com/prometheus/alertmanager/config"
	"github.com/prometheus/alertmanager/eventrecorder"
	"github.com/prometheus/alertmanager/marker"
	"github.com/prometheus/alertmanager/notify"
	"github.com/prometheus/alertmanager/types"
)

// hStage01 stands for the notification pipeline of the route: it records every flush
// (the tick instant carried by the context and the alerts handed over) and follows a
// script: 0 deliver, 1 fail at once, 2 hang until the flush deadline and then fail.
type hStage01 struct {
	script []int
	ticks  []time.Time
	firing []int
	calls  int
	ended  []time.Time
}

func (s *hStage01) Exec(ctx context.Context, _ *slog.Logger, as ...*alert.Alert) (context.Context, []*alert.Alert, error) {
	i := s.calls
	s.calls++
	now, _ := notify.Now(ctx)
	s.ticks = append(s.ticks, now)
	n := 0
	for _, a := range as {
		if !a.Resolved() {
			n++
		}
	}
	s.firing = append(s.firing, n)
	o := 0
	if i < len(s.script) {
		o = s.script[i]
	}
	var err error
	switch o {
	case 1:
		err = errors.New("receiver refused")
	case 2:
		<-ctx.Done()
		err = ctx.Err()
	}
	s.ended = append(s.ended, time.Now())
	return ctx, as, err
}

// VerifC01_FlushSchedule: a firing alert enters a running dispatcher at an arbitrary
// instant; group_wait and group_interval are arbitrary; each flush delivers, fails at
// once, or hangs until the flush deadline. The first flush happens no later than
// group_wait after ingestion (at once if the alert is older than group_wait), every
// later flush exactly one group_interval after the previous tick (the timer is
// re-armed before the flush, so slow or failing deliveries do not push it back), every
// flush lists the alert as firing, and a failed delivery discharges nothing: the alert
// stays in its group and is handed over again at the next interval until one succeeds.
//
//vf:quick unwind=16 decisions=300 goroutines=8 preempt=1 timerfires=24
//vf:thorough unwind=16 decisions=400 goroutines=8 preempt=1 timerfires=32
//vf:expect reach=delivered-after-failures reach=immediate-first-flush reach=waited-group-wait reach=hung-until-deadline
func VerifC01_FlushSchedule() {
	gwD := vfSeconds("groupWait", 0, 3600)
	giD := vfSeconds("groupInterval", 1, 7200)
	gw, gi := model.Duration(gwD), model.Duration(giD)
	ri := model.Duration(1000 * time.Hour)
	route := NewRoute(&config.Route{Receiver: "r", GroupBy: []model.LabelName{"alertname"}, GroupWait: &gw, GroupInterval: &gi, RepeatInterval: &ri}, nil)
	nFlush := 3
	st := &hStage01{}
	for i := 0; i < nFlush-1; i++ {
		st.script = append(st.script, vfChoice("outcome", 3))
	}
	st.script = append(st.script, 0) // eventually the receiver accepts
	d := NewDispatcher(nil, route, st, marker.NewGroupMarker(), func(d time.Duration) time.Duration { return d },
		100000*time.Hour, nil, promslog.NewNopLogger(), eventrecorder.Recorder{}, nil, nil)
	d.state.Store(DispatcherStateRunning)
	d.routeGroupsSlice = make([]routeAggrGroups, route.Idx+1)
	route.Walk(func(r *Route) { d.routeGroupsSlice[r.Idx] = routeAggrGroups{route: r} })
	defer d.cancel()

	vfAdvance(vfSeconds("t0", 0, 3600))
	t0 := vfNow()
	a := &types.Alert{}
	a.Labels = model.LabelSet{"alertname": "A"}
	a.StartsAt = t0.Add(-vfSeconds("firingSince", 0, 7200))
	a.UpdatedAt = t0
	a.EndsAt = t0.Add(1000 * time.Hour)
	old := a.StartsAt.Add(gwD).Before(t0)
	d.routeAlert(d.ctx, a)

	// let virtual time run over the first three flushes (and a little beyond)
	if old {
		vfAdvance(2*giD + time.Second)
	} else {
		vfAdvance(gwD + 2*giD + time.Second)
	}

	vfAssert("three-flushes-happened", st.calls >= nFlush)
	if old {
		vfAssert("old-alert-flushed-at-once", st.ticks[0].Equal(t0))
		vfReach("immediate-first-flush")
	} else {
		vfAssert("first-flush-after-group-wait", st.ticks[0].Equal(t0.Add(gwD)))
		vfReach("waited-group-wait")
	}
	vfAssert("first-flush-within-group-wait", !st.ticks[0].After(t0.Add(gwD)))
	for i := 1; i < nFlush; i++ {
		vfAssert("next-flush-exactly-one-interval-later", st.ticks[i].Equal(st.ticks[i-1].Add(giD)))
	}
	for i := 0; i < nFlush; i++ {
		vfAssert("every-flush-lists-the-firing-alert", st.firing[i] == 1)
	}
	hung := false
	for i := 0; i < nFlush-1; i++ {
		if st.script[i] == 2 {
			vfAssert("hang-ends-at-the-flush-deadline", st.ended[i].Equal(st.ticks[i].Add(giD)))
			hung = true
		}
	}
	if hung {
		vfReach("hung-until-deadline")
	}
	if st.script[0] != 0 || st.script[1] != 0 {
		vfReach("delivered-after-failures")
	}
	// nothing was discharged by the failures: the alert is still in its group
	held := 0
	d.routeGroupsSlice[route.Idx].groups.Range(func(_, el any) bool {
		if _, err := el.(*aggrGroup).alerts.Get(a.Fingerprint()); err == nil {
			held++
		}
		return true
	})
	vfAssert("alert-still-in-its-group", held == 1)
}
