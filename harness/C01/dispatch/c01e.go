package dispatch

import (
	"context"
	"errors"
	"time"

	"github.com/prometheus/client_golang/prometheus"
	"github.com/prometheus/common/model"
	"github.com/prometheus/common/promslog"
	"google.golang.org/protobuf/types/known/timestamppb"

	"github.com/prometheus/alertmanager/alert"
	"github.com/prometheus/alertmanager/config"
	amcommoncfg "github.com/prometheus/alertmanager/config/common"
	"github.com/prometheus/alertmanager/pkg/labels"
	"github.com/prometheus/alertmanager/eventrecorder"
	"github.com/prometheus/alertmanager/featurecontrol"
	"github.com/prometheus/alertmanager/inhibit"
	"github.com/prometheus/alertmanager/marker"
	"github.com/prometheus/alertmanager/nflog"
	"github.com/prometheus/alertmanager/notify"
	"github.com/prometheus/alertmanager/provider/mem"
	"github.com/prometheus/alertmanager/silence"
	"github.com/prometheus/alertmanager/silence/silencepb"
	"github.com/prometheus/alertmanager/timeinterval"
	"github.com/prometheus/alertmanager/types"
)

type hRSe01 bool

func (r hRSe01) SendResolved() bool { return bool(r) }

// hRecvE01 is the receiver at the end of the real pipeline: per delivery attempt it
// accepts, fails recoverably or rejects, as scripted; it records when it was sent what.
type hRecvE01 struct {
	script []int
	at     []time.Time
	firing []int
	okAt   []time.Time
}

func (n *hRecvE01) Notify(ctx context.Context, as ...*alert.Alert) (bool, error) {
	i := len(n.at)
	n.at = append(n.at, time.Now())
	f := 0
	for _, a := range as {
		if !a.Resolved() {
			f++
		}
	}
	n.firing = append(n.firing, f)
	o := 0
	if i < len(n.script) {
		o = n.script[i]
	}
	switch o {
	case 1:
		return true, errors.New("503 try again")
	case 2:
		return false, errors.New("400 rejected")
	}
	n.okAt = append(n.okAt, time.Now())
	return false, nil
}

// VerifC01_EndToEnd: the assembled path: the real in-memory provider, the real
// dispatcher started with Run (subscription, ingestion workers, start timer,
// aggregation group timers), and the real notification pipeline (gossip-settle,
// inhibitor, time-interval, silencer, wait, dedup, retry, record; real silences and
// notification log). A firing alert is put into the provider at an arbitrary instant
// after start-up, group_wait and group_interval are arbitrary, the alert may be covered
// by a silence for an arbitrary initial period, and the receiver's first two delivery
// attempts each succeed, fail recoverably or are rejected. Timer settings come from a
// small grid and the goroutines follow one fixed fair schedule (run to block, oldest
// runnable next): the interleavings are the subject of the step harnesses, this one
// checks that the pieces compose. Once the alert has been
// firing and unsuppressed for max(group_wait, group_interval) plus the group interval
// per failed flush, the receiver has been sent a notification listing it as firing; a
// silenced alert is never sent while the silence is active; a rejected delivery is
// tried again at the next group interval.
//
//vf:quick unwind=24 decisions=600 goroutines=16 preempt=0 sched=fifo timerfires=40 paths=400000 steps=20000000
//vf:thorough unwind=24 decisions=1200 goroutines=64 preempt=0 sched=fifo timerfires=200 paths=4000000 steps=60000000
//vf:expect reach=sent-on-first-flush reach=sent-after-silence reach=sent-after-rejection
func VerifC01_EndToEnd() {
	ctx, cancel := context.WithCancel(context.Background())
	defer cancel()
	logger := promslog.NewNopLogger()
	alerts, err := mem.NewAlerts(ctx, 100000*time.Hour, 0, nil, logger, eventrecorder.Recorder{}, prometheus.NewRegistry(), nil)
	if err != nil {
		panic(err)
	}
	sils, err := silence.New(silence.Options{Retention: time.Hour, Metrics: prometheus.NewRegistry()})
	if err != nil {
		panic(err)
	}
	nlog, err := nflog.New(nflog.Options{Retention: 100 * time.Hour, Metrics: prometheus.NewRegistry()})
	if err != nil {
		panic(err)
	}
	gm := marker.NewGroupMarker()
	recv := &hRecvE01{script: []int{vfChoice("attempt", 3), vfChoice("attempt", 3)}}
	pipeline := notify.NewPipelineBuilder(prometheus.NewRegistry(), featurecontrol.NoopFlags{}, eventrecorder.Recorder{}).New(
		map[string][]notify.Integration{"r": {notify.NewIntegration(recv, hRSe01(true), "webhook", 0, "r")}},
		func() time.Duration { return 0 },
		inhibit.NewInhibitor(alerts, nil, logger, eventrecorder.Recorder{}),
		silence.NewSilencer(sils, logger, eventrecorder.Recorder{}),
		timeinterval.NewIntervener(nil), gm, nlog, nil)

	// timer settings from a grid (concrete timers keep the composition tractable); the
	// silence's length below stays symbolic
	gwD := []time.Duration{0, 30 * time.Second, 2 * time.Minute}[vfChoice("groupWait", 2+vfTier())]
	giD := []time.Duration{time.Minute, 5 * time.Minute, 10 * time.Second}[vfChoice("groupInterval", 2+vfTier())]
	gw, gi := model.Duration(gwD), model.Duration(giD)
	ri := model.Duration(1000 * time.Hour)
	route := NewRoute(&config.Route{Receiver: "r", GroupBy: []model.LabelName{"alertname"}, GroupWait: &gw, GroupInterval: &gi, RepeatInterval: &ri}, nil)
	d := NewDispatcher(alerts, route, pipeline, gm, func(d time.Duration) time.Duration { return d },
		100000*time.Hour, nil, logger, eventrecorder.Recorder{}, nil, nil)
	vfGo("dispatcher", func() { d.Run(time.Now()) })
	defer func() {
		// shut down (natively no goroutine may stay behind in the test's bubble, also
		// when an assertion stopped the harness early)
		d.state.Store(DispatcherStateStopped)
		cancel()
		d.cancel()
		if vfNative() {
			d.finished.Wait()
		}
	}()
	vfAdvance(5 * time.Second) // start-up has settled

	t0 := vfNow()
	lset := model.LabelSet{"alertname": "A", "job": "j"}
	// optionally a silence covers the alert until t0+S
	silencedFor := time.Duration(0)
	if vfBool("silenced") {
		silencedFor = vfSeconds("silencedFor", 1, 900)
		s := &silencepb.Silence{
			MatcherSets: []*silencepb.MatcherSet{{Matchers: []*silencepb.Matcher{{Type: silencepb.Matcher_EQUAL, Name: "job", Pattern: "j"}}}},
			StartsAt:    timestamppb.New(t0),
			EndsAt:      timestamppb.New(t0.Add(silencedFor)),
			Comment:     "maintenance",
		}
		if sils.Set(ctx, s) != nil {
			vfFail("silence-not-created")
		}
	}
	a := &types.Alert{}
	a.Labels = lset
	a.StartsAt, a.UpdatedAt = t0, t0
	a.EndsAt = t0.Add(1000 * time.Hour)
	if alerts.Put(ctx, a) != nil {
		vfFail("alert-not-accepted")
	}

	// the bound: unsuppressed from t0+S; first flush at t0+gw, then every gi
	bound := gwD
	if giD > bound {
		bound = giD
	}
	failedFlushes := 0
	if recv.script[0] == 2 { // a rejection ends the flush; a recoverable error is retried inside it
		failedFlushes++
		if recv.script[1] == 2 {
			failedFlushes++
		}
	} else if recv.script[0] == 1 && recv.script[1] == 2 {
		failedFlushes++
	}
	deadline := t0.Add(silencedFor + bound + time.Duration(failedFlushes+1)*giD + time.Second)
	vfAdvance(deadline.Sub(vfNow()))

	vfAssert("receiver-was-sent-the-firing-alert-within-the-bound", len(recv.okAt) >= 1)
	for i, at := range recv.at {
		vfAssert("never-sent-while-silenced", !at.Before(t0.Add(silencedFor)))
		vfAssert("lists-the-alert-as-firing", recv.firing[i] == 1)
	}
	if len(recv.okAt) >= 1 {
		vfAssert("accepted-delivery-within-the-bound", !recv.okAt[0].After(deadline))
		vfAssert("no-second-notification-once-accepted", len(recv.okAt) == 1)
		switch {
		case failedFlushes > 0:
			vfReach("sent-after-rejection")
		case silencedFor > 0:
			vfReach("sent-after-silence")
		default:
			vfReach("sent-on-first-flush")
		}
	}
}

// VerifC01_EndToEndRouting: the assembled path with a routing tree: an "audit" route
// that matches everything and continues, a "dba" route for team=db, a "pager" route for
// severity=page, and the root's default receiver. For every combination of the alert's
// team / severity labels, exactly the receivers the documented routing rule selects
// (first matching child wins unless it continues; the parent's receiver only if no
// child matches) have been notified of the firing alert within group_wait plus slack,
// and nobody else.
//
//vf:quick unwind=24 decisions=700 goroutines=32 preempt=0 sched=fifo timerfires=60 paths=400000 steps=30000000
//vf:thorough unwind=24 decisions=900 goroutines=48 preempt=0 sched=fifo timerfires=100 paths=4000000 steps=60000000
//vf:expect reach=pager-and-audit reach=dba-and-audit reach=audit-only
func VerifC01_EndToEndRouting() {
	ctx, cancel := context.WithCancel(context.Background())
	defer cancel()
	logger := promslog.NewNopLogger()
	alerts, err := mem.NewAlerts(ctx, 100000*time.Hour, 0, nil, logger, eventrecorder.Recorder{}, prometheus.NewRegistry(), nil)
	if err != nil {
		panic(err)
	}
	sils, err := silence.New(silence.Options{Retention: time.Hour, Metrics: prometheus.NewRegistry()})
	if err != nil {
		panic(err)
	}
	nlog, err := nflog.New(nflog.Options{Retention: 100 * time.Hour, Metrics: prometheus.NewRegistry()})
	if err != nil {
		panic(err)
	}
	gm := marker.NewGroupMarker()
	names := []string{"default", "audit", "dba", "pager"}
	recvs := map[string]*hRecvE01{}
	integrations := map[string][]notify.Integration{}
	for _, n := range names {
		recvs[n] = &hRecvE01{}
		integrations[n] = []notify.Integration{notify.NewIntegration(recvs[n], hRSe01(true), "webhook", 0, n)}
	}
	pipeline := notify.NewPipelineBuilder(prometheus.NewRegistry(), featurecontrol.NoopFlags{}, eventrecorder.Recorder{}).New(
		integrations, func() time.Duration { return 0 },
		inhibit.NewInhibitor(alerts, nil, logger, eventrecorder.Recorder{}),
		silence.NewSilencer(sils, logger, eventrecorder.Recorder{}),
		timeinterval.NewIntervener(nil), gm, nlog, nil)
	mm := func(t labels.MatchType, n, v string) *labels.Matcher {
		x, err := labels.NewMatcher(t, n, v)
		if err != nil {
			panic(err)
		}
		return x
	}
	gw, gi := model.Duration(10*time.Second), model.Duration(5*time.Minute)
	ri := model.Duration(1000 * time.Hour)
	dbaContinues := vfBool("dba.continue")
	route := NewRoute(&config.Route{Receiver: "default", GroupBy: []model.LabelName{"alertname"}, GroupWait: &gw, GroupInterval: &gi, RepeatInterval: &ri,
		Routes: []*config.Route{
			{Receiver: "audit", Matchers: amcommoncfg.Matchers{mm(labels.MatchRegexp, "alertname", ".+")}, Continue: true},
			{Receiver: "dba", Matchers: amcommoncfg.Matchers{mm(labels.MatchEqual, "team", "db")}, Continue: dbaContinues},
			{Receiver: "pager", Matchers: amcommoncfg.Matchers{mm(labels.MatchEqual, "severity", "page")}},
		}}, nil)
	d := NewDispatcher(alerts, route, pipeline, gm, func(d time.Duration) time.Duration { return d },
		100000*time.Hour, nil, logger, eventrecorder.Recorder{}, nil, nil)
	vfGo("dispatcher", func() { d.Run(time.Now()) })
	defer func() {
		d.state.Store(DispatcherStateStopped)
		cancel()
		d.cancel()
		if vfNative() {
			d.finished.Wait()
		}
	}()
	vfAdvance(5 * time.Second)
	t0 := vfNow()
	lset := model.LabelSet{"alertname": "A"}
	isDB, isPage := vfBool("team=db"), vfBool("severity=page")
	if isDB {
		lset["team"] = "db"
	}
	if isPage {
		lset["severity"] = "page"
	}
	a := &types.Alert{}
	a.Labels = lset
	a.StartsAt, a.UpdatedAt = t0, t0
	a.EndsAt = t0.Add(1000 * time.Hour)
	if alerts.Put(ctx, a) != nil {
		vfFail("alert-not-accepted")
	}
	vfAdvance(time.Duration(gw) + time.Second)
	// the documented rule
	want := map[string]bool{"audit": true}
	switch {
	case isDB && (!isPage || !dbaContinues):
		want["dba"] = true
	case isDB:
		want["dba"], want["pager"] = true, true
	case isPage:
		want["pager"] = true
	}
	for _, n := range names {
		got := len(recvs[n].okAt) > 0
		if want[n] {
			vfAssert("selected-receiver-was-notified-of-the-firing-alert", got && recvs[n].firing[0] == 1)
		} else {
			vfAssert("unselected-receiver-was-not-notified", !got)
		}
	}
	switch {
	case want["pager"]:
		vfReach("pager-and-audit")
	case want["dba"]:
		vfReach("dba-and-audit")
	default:
		vfReach("audit-only")
	}
}
