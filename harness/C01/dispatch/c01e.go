package dispatch

import (
	"context"
	"errors"
	"time"

	"github.com/prometheus/client_golang/prometheus"
	"github.com/prometheus/common/model"
	"github.com/prometheus/common/promslog"
	"google.golang.org/protobuf/types/known/timestamppb"

	"github.com/prometheus/alertmanager/alert"
	"github.com/prometheus/alertmanager/config"
	"github.com/prometheus/alertmanager/eventrecorder"
	"github.com/prometheus/alertmanager/featurecontrol"
	"github.com/prometheus/alertmanager/inhibit"
	"github.com/prometheus/alertmanager/marker"
	"github.com/prometheus/alertmanager/nflog"
	"github.com/prometheus/alertmanager/notify"
	"github.com/prometheus/alertmanager/provider/mem"
	"github.com/prometheus/alertmanager/silence"
	"github.com/prometheus/alertmanager/silence/silencepb"
	"github.com/prometheus/alertmanager/timeinterval"
	"github.com/prometheus/alertmanager/types"
)

type hRSe01 bool

func (r hRSe01) SendResolved() bool { return bool(r) }

// hRecvE01 is the receiver at the end of the real pipeline: per delivery attempt it
// accepts, fails recoverably or rejects, as scripted; it records when it was sent what.
type hRecvE01 struct {
	script []int
	at     []time.Time
	firing []int
	okAt   []time.Time
}

func (n *hRecvE01) Notify(ctx context.Context, as ...*alert.Alert) (bool, error) {
	i := len(n.at)
	n.at = append(n.at, time.Now())
	f := 0
	for _, a := range as {
		if !a.Resolved() {
			f++
		}
	}
	n.firing = append(n.firing, f)
	o := 0
	if i < len(n.script) {
		o = n.script[i]
	}
	switch o {
	case 1:
		return true, errors.New("503 try again")
	case 2:
		return false, errors.New("400 rejected")
	}
	n.okAt = append(n.okAt, time.Now())
	return false, nil
}

// VerifC01_EndToEnd: the assembled path: the real in-memory provider, the real
// dispatcher started with Run (subscription, ingestion workers, start timer,
// aggregation group timers), and the real notification pipeline (gossip-settle,
// inhibitor, time-interval, silencer, wait, dedup, retry, record; real silences and
// notification log). A firing alert is put into the provider at an arbitrary instant
// after start-up, group_wait and group_interval are arbitrary, the alert may be covered
// by a silence for an arbitrary initial period, and the receiver's first two delivery
// attempts each succeed, fail recoverably or are rejected. Timer settings come from a
// small grid and the goroutines follow one fixed fair schedule (run to block, oldest
// runnable next): the interleavings are the subject of the step harnesses, this one
// checks that the pieces compose. Once the alert has been
// firing and unsuppressed for max(group_wait, group_interval) plus the group interval
// per failed flush, the receiver has been sent a notification listing it as firing; a
// silenced alert is never sent while the silence is active; a rejected delivery is
// tried again at the next group interval.
//
//vf:quick unwind=24 decisions=600 goroutines=16 preempt=0 sched=fifo timerfires=40 paths=400000 steps=20000000
//vf:thorough unwind=24 decisions=1200 goroutines=64 preempt=0 sched=fifo timerfires=200 paths=4000000 steps=60000000
//vf:expect reach=sent-on-first-flush reach=sent-after-silence reach=sent-after-rejection
func VerifC01_EndToEnd() {
	ctx, cancel := context.WithCancel(context.Background())
	defer cancel()
	logger := promslog.NewNopLogger()
	alerts, err := mem.NewAlerts(ctx, 100000*time.Hour, 0, nil, logger, eventrecorder.Recorder{}, prometheus.NewRegistry(), nil)
	if err != nil {
		panic(err)
	}
	sils, err := silence.New(silence.Options{Retention: time.Hour, Metrics: prometheus.NewRegistry()})
	if err != nil {
		panic(err)
	}
	nlog, err := nflog.New(nflog.Options{Retention: 100 * time.Hour, Metrics: prometheus.NewRegistry()})
	if err != nil {
		panic(err)
	}
	gm := marker.NewGroupMarker()
	recv := &hRecvE01{script: []int{vfChoice("attempt", 3), vfChoice("attempt", 3)}}
	pipeline := notify.NewPipelineBuilder(prometheus.NewRegistry(), featurecontrol.NoopFlags{}, eventrecorder.Recorder{}).New(
		map[string][]notify.Integration{"r": {notify.NewIntegration(recv, hRSe01(true), "webhook", 0, "r")}},
		func() time.Duration { return 0 },
		inhibit.NewInhibitor(alerts, nil, logger, eventrecorder.Recorder{}),
		silence.NewSilencer(sils, logger, eventrecorder.Recorder{}),
		timeinterval.NewIntervener(nil), gm, nlog, nil)

	// timer settings from a grid (concrete timers keep the composition tractable); the
	// silence's length below stays symbolic
	gwD := []time.Duration{0, 30 * time.Second, 2 * time.Minute}[vfChoice("groupWait", 2+vfTier())]
	giD := []time.Duration{time.Minute, 5 * time.Minute, 10 * time.Second}[vfChoice("groupInterval", 2+vfTier())]
	gw, gi := model.Duration(gwD), model.Duration(giD)
	ri := model.Duration(1000 * time.Hour)
	route := NewRoute(&config.Route{Receiver: "r", GroupBy: []model.LabelName{"alertname"}, GroupWait: &gw, GroupInterval: &gi, RepeatInterval: &ri}, nil)
	d := NewDispatcher(alerts, route, pipeline, gm, func(d time.Duration) time.Duration { return d },
		100000*time.Hour, nil, logger, eventrecorder.Recorder{}, nil, nil)
	vfGo("dispatcher", func() { d.Run(time.Now()) })
	defer func() {
		// shut down (natively no goroutine may stay behind in the test's bubble, also
		// when an assertion stopped the harness early)
		d.state.Store(DispatcherStateStopped)
		cancel()
		d.cancel()
		if vfNative() {
			d.finished.Wait()
		}
	}()
	vfAdvance(5 * time.Second) // start-up has settled

	t0 := vfNow()
	lset := model.LabelSet{"alertname": "A", "job": "j"}
	// optionally a silence covers the alert until t0+S
	silencedFor := time.Duration(0)
	if vfBool("silenced") {
		silencedFor = vfSeconds("silencedFor", 1, 900)
		s := &silencepb.Silence{
			MatcherSets: []*silencepb.MatcherSet{{Matchers: []*silencepb.Matcher{{Type: silencepb.Matcher_EQUAL, Name: "job", Pattern: "j"}}}},
			StartsAt:    timestamppb.New(t0),
			EndsAt:      timestamppb.New(t0.Add(silencedFor)),
			Comment:     "maintenance",
		}
		if sils.Set(ctx, s) != nil {
			vfFail("silence-not-created")
		}
	}
	a := &types.Alert{}
	a.Labels = lset
	a.StartsAt, a.UpdatedAt = t0, t0
	a.EndsAt = t0.Add(1000 * time.Hour)
	if alerts.Put(ctx, a) != nil {
		vfFail("alert-not-accepted")
	}

	// the bound: unsuppressed from t0+S; first flush at t0+gw, then every gi
	bound := gwD
	if giD > bound {
		bound = giD
	}
	failedFlushes := 0
	if recv.script[0] == 2 { // a rejection ends the flush; a recoverable error is retried inside it
		failedFlushes++
		if recv.script[1] == 2 {
			failedFlushes++
		}
	} else if recv.script[0] == 1 && recv.script[1] == 2 {
		failedFlushes++
	}
	deadline := t0.Add(silencedFor + bound + time.Duration(failedFlushes+1)*giD + time.Second)
	vfAdvance(deadline.Sub(vfNow()))

	vfAssert("receiver-was-sent-the-firing-alert-within-the-bound", len(recv.okAt) >= 1)
	for i, at := range recv.at {
		vfAssert("never-sent-while-silenced", !at.Before(t0.Add(silencedFor)))
		vfAssert("lists-the-alert-as-firing", recv.firing[i] == 1)
	}
	if len(recv.okAt) >= 1 {
		vfAssert("accepted-delivery-within-the-bound", !recv.okAt[0].After(deadline))
		vfAssert("no-second-notification-once-accepted", len(recv.okAt) == 1)
		switch {
		case failedFlushes > 0:
			vfReach("sent-after-rejection")
		case silencedFor > 0:
			vfReach("sent-after-silence")
		default:
			vfReach("sent-on-first-flush")
		}
	}
}
