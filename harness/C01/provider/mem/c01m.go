package mem

import (
	"context"
	"time"

	"github.com/prometheus/client_golang/prometheus"
	"github.com/prometheus/common/model"
	"github.com/prometheus/common/promslog"

	"github.com/prometheus/alertmanager/eventrecorder"
	"github.com/prometheus/alertmanager/provider"
	"github.com/prometheus/alertmanager/types"
)

// VerifC01_FanOut: every alert admitted by the store is handed, once and in
// submission order, to every subscriber that has not gone away (the dispatcher and
// the inhibitor); an alert refused by the per-name limit is not published and the
// refusal is counted; a subscriber that joins later first receives what is stored.
//
//vf:bounds unwind=24 decisions=400 maporder=mem.Alerts).Put preempt=0
//vf:expect reach=delivered reach=limited reach=late-subscriber
func VerifC01_FanOut() {
	ctx, cancel := context.WithCancel(context.Background())
	defer cancel()
	limit := vfChoice("limit", 2) // 0 = unlimited, 1 = one alert per name
	a, err := NewAlerts(ctx, 100000*time.Hour, limit, nil, promslog.NewNopLogger(), eventrecorder.Recorder{}, prometheus.NewRegistry(), nil)
	if err != nil {
		panic(err)
	}
	disp := a.Subscribe("dispatcher")
	inhib := a.Subscribe("inhibitor")
	gone := vfBool("inhibitorGone")
	if gone {
		inhib.Close()
	}
	now := vfNow()
	n := 2 + vfChoice("more", 2)
	var sent []*types.Alert
	var admitted []*types.Alert
	seenName := map[string]bool{}
	for i := 0; i < n; i++ {
		al := &types.Alert{}
		name := []string{"A", "B"}[vfChoice("name", 2)]
		al.Labels = model.LabelSet{"alertname": model.LabelValue(name), "instance": model.LabelValue([]string{"0", "1", "2", "3"}[i])}
		al.StartsAt, al.UpdatedAt, al.EndsAt = now, now, now.Add(time.Hour)
		sent = append(sent, al)
		if limit == 0 || !seenName[name] {
			admitted = append(admitted, al)
		} else {
			vfReach("limited")
		}
		seenName[name] = true
	}
	if vfBool("oneBatch") {
		vfAssert("put-ok", a.Put(ctx, sent...) == nil)
	} else {
		for _, al := range sent {
			vfAssert("put-ok", a.Put(ctx, al) == nil)
		}
	}
	got := hDrain01(disp.Next())
	vfAssert("dispatcher-got-every-admitted-alert-once", len(got) == len(admitted))
	for i := range admitted {
		if i < len(got) {
			vfAssert("in-submission-order", got[i] == admitted[i])
		}
	}
	vfReach("delivered")
	if !gone {
		got2 := hDrain01(inhib.Next())
		vfAssert("every-live-subscriber-gets-the-same", len(got2) == len(admitted))
	}
	// a subscriber joining now starts from the stored alerts
	late := a.Subscribe("late")
	got3 := hDrain01(late.Next())
	vfAssert("late-subscriber-starts-from-the-store", len(got3) == len(admitted))
	vfReach("late-subscriber")
	disp.Close()
	late.Close()
	if !gone {
		inhib.Close()
	}
}

func hDrain01(ch <-chan *provider.Alert) []*types.Alert {
	var out []*types.Alert
	for {
		select {
		case m, ok := <-ch:
			if !ok {
				return out
			}
			out = append(out, m.Data)
		default:
			return out
		}
	}
}
