package silence

import (
	"context"
	"time"

	"github.com/prometheus/client_golang/prometheus"
	"github.com/prometheus/common/model"
	"google.golang.org/protobuf/types/known/timestamppb"

	pb "github.com/prometheus/alertmanager/silence/silencepb"
)

func hT09(name string) time.Time {
	sec := vfIntRange(name+".s", 1, 7258118400)
	ns := vfIntRange(name+".ns", 0, 999999999)
	return time.Unix(int64(sec), int64(ns)).UTC()
}

func hNew09(retention time.Duration) *Silences {
	s, err := New(Options{Retention: retention, Metrics: prometheus.NewRegistry()})
	if err != nil {
		panic(err)
	}
	return s
}

// hSil09: versions of one id share their matchers (an API edit that changes matchers
// creates a new id), so the matcher value is derived from the id.
func hSil09(id, val string, start, end, updated time.Time) *pb.Silence {
	mv := "a"
	if id == "idB" {
		mv = "c"
	}
	return &pb.Silence{
		Id: id,
		MatcherSets: []*pb.MatcherSet{{Matchers: []*pb.Matcher{
			{Type: pb.Matcher_EQUAL, Name: "job", Pattern: mv},
		}}},
		StartsAt:  timestamppb.New(start),
		EndsAt:    timestamppb.New(end),
		UpdatedAt: timestamppb.New(updated),
		Comment:   "c-" + val,
	}
}

// VerifC09_MergeStep: one state.merge from an arbitrary pre-state (inductive).
// The post-state is the version with the later UpdatedAt among {prev, incoming if
// not past retention}; (changed, added) are exact; an older version never replaces a
// newer one; a version past its retention is never inserted.
//
//vf:bounds unwind=4 decisions=60
//vf:expect reach=added reach=replaced reach=refused-older reach=refused-expired
func VerifC09_MergeStep() {
	st := state{}
	hasPrev := vfBool("hasPrev")
	prevUpd := hT09("prevUpd")
	var prev *pb.MeshSilence
	if hasPrev {
		prev = &pb.MeshSilence{Silence: hSil09("id1", "a", hT09("ps"), hT09("pe"), prevUpd), ExpiresAt: timestamppb.New(hT09("pexp"))}
		st["id1"] = prev
	}
	inUpd := hT09("inUpd")
	inExp := hT09("inExp")
	now := hT09("now")
	vfAssume(!hasPrev || !prevUpd.Equal(inUpd)) // distinct update times (quantifier)
	vfAssume(!inExp.Equal(now))                 // boundary instant left open
	e := &pb.MeshSilence{Silence: hSil09("id1", "b", hT09("is"), hT09("ie"), inUpd), ExpiresAt: timestamppb.New(inExp)}

	changed, added := st.merge(e, now)

	cur := st["id1"]
	expired := inExp.Before(now)
	newer := !hasPrev || prevUpd.Before(inUpd)
	vfAssert("changed-exact", changed == (!expired && newer))
	vfAssert("added-exact", added == (changed && !hasPrev))
	if changed {
		vfAssert("taken-is-incoming", cur == e)
		if hasPrev {
			vfReach("replaced")
		} else {
			vfReach("added")
		}
	} else {
		vfAssert("refused-keeps-prev", cur == prev)
		if expired {
			vfReach("refused-expired")
		} else {
			vfReach("refused-older")
		}
	}
	if hasPrev {
		vfAssert("never-backwards", cur != nil && !cur.Silence.UpdatedAt.AsTime().Before(prevUpd))
	}
	vfAssert("len", len(st) <= 1)
}

// hIndexesInStep09: ids(st) = ids(mi) = ids(vi), vi strictly increasing.
func hIndexesInStep09(s *Silences) bool {
	if len(s.st) != len(s.mi) || len(s.st) != len(s.vi) {
		return false
	}
	last := -1 << 62
	for _, sv := range s.vi {
		if _, ok := s.st[sv.id]; !ok {
			return false
		}
		if _, ok := s.mi[sv.id]; !ok {
			return false
		}
		if sv.version <= last {
			return false
		}
		last = sv.version
	}
	return true
}

// VerifC09_Converge: 3 versions over 2 ids with distinct update
// times delivered to one instance one by one and to another in any permutation cut into
// any batches, with duplicates: same silences with
// the same content on both, indexes in step, same query answers; re-merging known
// data changes nothing and triggers no gossip.
//
//vf:quick unwind=8 decisions=300 paths=600000
//vf:thorough unwind=10 decisions=500 paths=8000000
//vf:expect reach=converged
func VerifC09_Converge() {
	ids := []string{"idA", "idB"}
	vals := []string{"a", "b", "c", "d"}
	n := 3 // (four versions did not finish; the thorough tier cuts the permutation into any batches instead)
	es := make([]*pb.MeshSilence, n)
	upd := make([]time.Time, n)
	idx := make([]int, n)
	for i := 0; i < n; i++ {
		upd[i] = hT09("upd")
		idx[i] = vfChoice("id", 2)
		start := hT09("start")
		end := hT09("end")
		vfAssume(!end.Before(start))
		es[i] = &pb.MeshSilence{Silence: hSil09(ids[idx[i]], vals[i], start, end, upd[i]), ExpiresAt: timestamppb.New(hT09("exp"))}
	}
	for i := 0; i < n; i++ {
		for j := i + 1; j < n; j++ {
			vfAssume(!upd[i].Equal(upd[j]))
		}
	}
	enc := func(is ...int) []byte {
		var b []byte
		for _, i := range is {
			x, err := marshalMeshSilence(es[i])
			if err != nil {
				panic(err)
			}
			b = append(b, x...)
		}
		return b
	}
	s1 := hNew09(time.Hour)
	s2 := hNew09(time.Hour)
	g1 := 0
	s1.SetBroadcast(func([]byte) { g1++ })
	now := vfNow()
	for i := 0; i < n; i++ {
		vfAssume(!es[i].ExpiresAt.AsTime().Equal(now))
	}
	for i := 0; i < n; i++ {
		vfAssert("merge-ok", s1.Merge(enc(i)) == nil)
	}
	before := g1
	v1 := s1.Version()
	dup := vfChoice("dup", n)
	vfAssert("merge-ok", s1.Merge(enc(dup)) == nil)
	vfAssert("duplicate-no-gossip", g1 == before)
	vfAssert("duplicate-no-version-bump", s1.Version() == v1)

	// instance 2: an arbitrary permutation cut into arbitrary batches (a full-state batch
	// has one entry per id), then the first delivered entry once more
	perms := hPerms09(n)
	perm := perms[vfChoice("perm", len(perms))]
	var batch []int
	for pos, i := range perm {
		batch = append(batch, i)
		// (quick tier: only the first two may share a batch)
		if pos == n-1 || (vfTier() == 0 && pos > 0) || vfBool("cut") {
			for x := 0; x < len(batch); x++ {
				for y := x + 1; y < len(batch); y++ {
					vfAssume(idx[batch[x]] != idx[batch[y]])
				}
			}
			vfAssert("merge-ok", s2.Merge(enc(batch...)) == nil)
			batch = nil
		}
	}
	vfAssert("merge-ok", s2.Merge(enc(perm[0])) == nil)
	for k := 0; k < 2; k++ {
		best := -1
		for i := 0; i < n; i++ {
			if idx[i] != k || es[i].ExpiresAt.AsTime().Before(now) {
				continue
			}
			if best < 0 || upd[best].Before(upd[i]) {
				best = i
			}
		}
		e1, ok1 := s1.st[ids[k]]
		e2, ok2 := s2.st[ids[k]]
		vfAssert("same-presence", ok1 == ok2 && ok1 == (best >= 0))
		if best >= 0 {
			vfAssert("newest-wins-1", e1.Silence.UpdatedAt.AsTime().Equal(upd[best]) && e1.Silence.Comment == "c-"+vals[best])
			vfAssert("newest-wins-2", e2.Silence.UpdatedAt.AsTime().Equal(upd[best]) && e2.Silence.Comment == "c-"+vals[best])
			vfAssert("same-times", e1.Silence.EndsAt.AsTime().Equal(e2.Silence.EndsAt.AsTime()) && e1.Silence.StartsAt.AsTime().Equal(e2.Silence.StartsAt.AsTime()))
		}
	}
	vfAssert("indexes-in-step-1", hIndexesInStep09(s1))
	vfAssert("indexes-in-step-2", hIndexesInStep09(s2))
	// same query answers for a label set, whatever the delivery order
	for _, v := range []string{"a", "c"} {
		lset := model.LabelSet{"job": model.LabelValue(v)}
		r1, _, err1 := s1.Query(context.Background(), QState(SilenceStateActive), QMatches(lset))
		r2, _, err2 := s2.Query(context.Background(), QState(SilenceStateActive), QMatches(lset))
		vfAssert("query-ok", err1 == nil && err2 == nil)
		vfAssert("query-agrees", len(r1) == len(r2))
	}
	vfReach("converged")
}

// VerifC09_Propagate: a silence created, edited or expired through instance A's API
// is broadcast exactly once per change, and merging that broadcast into instance B
// (empty, or holding any older version) makes B return it.
//
//vf:bounds unwind=8 decisions=200
//vf:expect reach=created reach=expired-propagated
func VerifC09_Propagate() {
	a := hNew09(time.Hour)
	b := hNew09(time.Hour)
	var sent [][]byte
	a.SetBroadcast(func(x []byte) { sent = append(sent, x) })
	ctx := context.Background()
	vfAdvance(vfSeconds("t0", 0, 86400))
	now := vfNow()
	sil := hSil09("", "a", now.Add(vfSeconds("startIn", 0, 3600)), now.Add(time.Hour+vfSeconds("len", 1, 7200)), time.Time{})
	vfAssert("create-ok", a.Set(ctx, sil) == nil)
	vfAssert("one-broadcast-per-create", len(sent) == 1)
	vfReach("created")
	id := sil.Id
	vfAssert("merge-ok", b.Merge(sent[0]) == nil)
	got, _, err := b.Query(ctx, QIDs(id))
	vfAssert("b-has-it", err == nil && len(got) == 1 && got[0].EndsAt.AsTime().Equal(sil.EndsAt.AsTime()))

	vfAdvance(vfSeconds("t1", 1, 1800))
	vfAssert("expire-ok", a.Expire(ctx, id) == nil)
	vfAssert("one-broadcast-per-expire", len(sent) == 2)
	// late duplicate of the first message, then the expiry
	if vfBool("dupFirst") {
		vfAssert("merge-ok", b.Merge(sent[0]) == nil)
	}
	vfAssert("merge-ok", b.Merge(sent[1]) == nil)
	if vfBool("dupAfter") {
		vfAssert("merge-ok", b.Merge(sent[0]) == nil)
	}
	vfAdvance(time.Second)
	ga, _, _ := a.Query(ctx, QIDs(id))
	gb, _, _ := b.Query(ctx, QIDs(id))
	vfAssert("both-have-it", len(ga) == 1 && len(gb) == 1)
	vfAssert("expired-on-both", getState(ga[0], vfNow()) == SilenceStateExpired && getState(gb[0], vfNow()) == SilenceStateExpired)
	vfAssert("same-end", ga[0].EndsAt.AsTime().Equal(gb[0].EndsAt.AsTime()))
	vfReach("expired-propagated")
}

// hPerms09: all permutations of 0..n-1.
func hPerms09(n int) [][]int {
	if n == 0 {
		return [][]int{{}}
	}
	var out [][]int
	for _, p := range hPerms09(n - 1) {
		for pos := 0; pos <= len(p); pos++ {
			q := append(append(append([]int{}, p[:pos]...), n-1), p[pos:]...)
			out = append(out, q)
		}
	}
	return out
}

// VerifC09_FullStateExchange: what single-update gossip lost is repaired by a full-state
// exchange (push/pull): instance A creates a silence, B receives it; A then expires it
// (or a second silence is created and expired on A) while the single updates to B are
// lost; after an arbitrary time within the retention B merges A.MarshalBinary(). B then
// holds, for every silence A still stores, the same version as A: the expiry is not
// lost because the silence "has ended anyway", and B no longer mutes what A unmuted.
//
//vf:quick unwind=12 decisions=300 paths=300000
//vf:thorough unwind=16 decisions=400 paths=3000000
//vf:expect reach=converged-after-exchange
func VerifC09_FullStateExchange() {
	a := hNew09(time.Hour)
	b := hNew09(time.Hour)
	var sent [][]byte
	a.SetBroadcast(func(x []byte) { sent = append(sent, x) })
	ctx := context.Background()
	now := vfNow()
	s1 := hSil09("", "a", now, now.Add(time.Hour+vfSeconds("len", 1, 7200)), time.Time{})
	vfAssert("create-ok", a.Set(ctx, s1) == nil)
	vfAssert("merge-ok", b.Merge(sent[0]) == nil) // B knows version 1
	// partition: A's further updates do not reach B
	vfAdvance(vfSeconds("t1", 1, 1800))
	vfAssert("expire-ok", a.Expire(ctx, s1.Id) == nil)
	var s2 *pb.Silence
	if vfBool("secondSilence") {
		s2 = hSil09("", "b", vfNow(), vfNow().Add(vfSeconds("len2", 60, 7200)), time.Time{})
		vfAssert("create-ok", a.Set(ctx, s2) == nil)
		if vfBool("expireSecond") {
			vfAdvance(vfSeconds("t2", 1, 600))
			vfAssert("expire-ok", a.Expire(ctx, s2.Id) == nil)
		}
	}
	// the partition heals within the retention: push/pull
	vfAdvance(vfSeconds("healAfter", 0, 3000))
	st, err := a.MarshalBinary()
	vfAssert("state-marshals", err == nil)
	vfAssert("full-state-merges", b.Merge(st) == nil)
	nowX := vfNow()
	for id, ea := range a.st {
		vfAssume(!ea.ExpiresAt.AsTime().Equal(nowX))
		eb, ok := b.st[id]
		if ea.ExpiresAt.AsTime().Before(nowX) {
			continue // past its retention: may be dropped
		}
		vfAssert("b-holds-every-silence-a-stores", ok)
		if ok {
			vfAssert("b-holds-a's-version", eb.Silence.UpdatedAt.AsTime().Equal(ea.Silence.UpdatedAt.AsTime()) && eb.Silence.EndsAt.AsTime().Equal(ea.Silence.EndsAt.AsTime()))
		}
	}
	vfAssert("indexes-in-step", hIndexesInStep09(b))
	vfReach("converged-after-exchange")
}
