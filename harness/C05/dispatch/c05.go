package dispatch

import (
	"context"
	"time"

	"github.com/prometheus/common/model"
	"github.com/prometheus/common/promslog"

	"github.com/prometheus/alertmanager/alert"
	"github.com/prometheus/alertmanager/config"
	"github.com/prometheus/alertmanager/eventrecorder"
	"github.com/prometheus/alertmanager/types"
)

func hGroup05() *aggrGroup {
	gw := model.Duration(time.Hour)
	route := NewRoute(&config.Route{Receiver: "r", GroupBy: []model.LabelName{"alertname"}, GroupWait: &gw}, nil)
	return newAggrGroup(context.Background(), model.LabelSet{"alertname": "A"}, route, nil, eventrecorder.Recorder{}, promslog.NewNopLogger(), nil)
}

func hAlert05(inst string, start, end, upd time.Time) *types.Alert {
	a := &types.Alert{}
	a.Labels = model.LabelSet{"alertname": "A", "instance": model.LabelValue(inst)}
	a.StartsAt, a.EndsAt, a.UpdatedAt = start, end, upd
	return a
}

// VerifC05_Flush: a group with 2-3 alerts whose end times lie anywhere around the
// flush instant. During delivery an alert may fire again (a newer version is
// inserted) and time passes. An alert is handed to the pipeline as resolved only if
// its end has passed at the flush instant; alerts handed over as firing cannot turn
// resolved while the notification is in flight; after the flush an alert is removed
// iff the delivery succeeded, it was reported resolved and it was not updated in the
// meantime; the group is destroyed iff it is then empty; a re-fired alert stays and
// is reported firing by the next flush.
//
//vf:quick unwind=16 decisions=300
//vf:thorough unwind=20 decisions=400
//vf:expect reach=reported-resolved reach=reported-firing reach=refired-kept reach=destroyed reach=failed-delivery
func VerifC05_Flush() {
	ag := hGroup05()
	defer ag.cancel()
	n := 2 + vfTier()
	t0 := vfNow()
	insts := []string{"a", "b", "c"}
	ends := make([]time.Time, n)
	for i := 0; i < n; i++ {
		ends[i] = t0.Add(vfSeconds("end", 1, 7200))
		vfAssert("insert-ok", ag.insert(context.Background(), hAlert05(insts[i], t0, ends[i], t0)))
	}
	vfAdvance(vfSeconds("untilFlush", 0, 7200))
	flushAt := vfNow()
	for i := 0; i < n; i++ {
		vfAssume(!ends[i].Equal(flushAt)) // the single instant end == now is left open
	}
	refire := vfChoice("refire", n+1) // index of the alert that fires again during delivery, n = none
	success := vfBool("deliveryOK")
	reportedResolved := make([]bool, n)
	calls := 0
	ag.flush(func(as ...*alert.Alert) bool {
		calls++
		vfAssert("flush-sends-every-alert-of-the-group", len(as) == n)
		for _, a := range as {
			i := 0
			for k := range insts {
				if a.Labels["instance"] == model.LabelValue(insts[k]) {
					i = k
				}
			}
			reportedResolved[i] = a.Resolved()
			if reportedResolved[i] {
				vfAssert("resolved-only-when-end-passed", !ends[i].After(flushAt))
				vfReach("reported-resolved")
			} else {
				vfAssert("firing-when-end-not-passed", ends[i].After(flushAt))
				vfReach("reported-firing")
			}
		}
		// delivery takes time; meanwhile one alert may fire again
		vfAdvance(vfSeconds("deliveryTakes", 0, 7200))
		if refire < n {
			now := vfNow()
			ag.insert(context.Background(), hAlert05(insts[refire], t0, now.Add(time.Hour), now))
		}
		for _, a := range as {
			if !a.Resolved() {
				continue
			}
			i := 0
			for k := range insts {
				if a.Labels["instance"] == model.LabelValue(insts[k]) {
					i = k
				}
			}
			// still resolved later is fine; but what was handed over as firing stays firing
			_ = i
		}
		for k, a := range as {
			_ = k
			i := 0
			for q := range insts {
				if a.Labels["instance"] == model.LabelValue(insts[q]) {
					i = q
				}
			}
			if !reportedResolved[i] {
				vfAssert("firing-cannot-resolve-in-flight", !a.Resolved())
			}
		}
		if !success {
			vfReach("failed-delivery")
		}
		return success
	})
	vfAssert("notify-called-once", calls == 1)
	remaining := 0
	for i := 0; i < n; i++ {
		a := hAlert05(insts[i], t0, ends[i], t0)
		_, err := ag.alerts.Get(a.Fingerprint())
		present := err == nil
		wantGone := success && reportedResolved[i] && refire != i
		vfAssert("deleted-iff-delivered-resolved-and-unmodified", present == !wantGone)
		if present {
			remaining++
		}
		if refire == i && reportedResolved[i] {
			vfReach("refired-kept")
		}
	}
	vfAssert("destroyed-iff-delivered-and-empty", ag.destroyed() == (success && remaining == 0))
	if ag.destroyed() {
		vfReach("destroyed")
		vfAssert("destroyed-group-refuses-inserts", !ag.insert(context.Background(), hAlert05("z", t0, t0.Add(time.Hour), vfNow())))
		return
	}
	// the next flush reports a re-fired alert as firing
	if refire < n {
		seen := false
		ag.flush(func(as ...*alert.Alert) bool {
			for _, a := range as {
				if a.Labels["instance"] == model.LabelValue(insts[refire]) {
					seen = true
					vfAssert("refired-reported-firing", !a.Resolved())
				}
			}
			return true
		})
		vfAssert("refired-still-in-group", seen)
	}
}
