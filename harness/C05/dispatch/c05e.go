package dispatch

import (
	"context"
	"errors"
	"time"

	"github.com/prometheus/client_golang/prometheus"
	"github.com/prometheus/common/model"
	"github.com/prometheus/common/promslog"

	"github.com/prometheus/alertmanager/alert"
	"github.com/prometheus/alertmanager/config"
	"github.com/prometheus/alertmanager/eventrecorder"
	"github.com/prometheus/alertmanager/featurecontrol"
	"github.com/prometheus/alertmanager/inhibit"
	"github.com/prometheus/alertmanager/marker"
	"github.com/prometheus/alertmanager/nflog"
	"github.com/prometheus/alertmanager/notify"
	"github.com/prometheus/alertmanager/provider/mem"
	"github.com/prometheus/alertmanager/silence"
	"github.com/prometheus/alertmanager/timeinterval"
	"github.com/prometheus/alertmanager/types"
)

type hRSe05 bool

func (r hRSe05) SendResolved() bool { return bool(r) }

// hRecvE05 is the receiver at the end of the real pipeline: per delivery attempt it
// accepts, fails recoverably or rejects, as scripted; it records when it was sent what.
type hRecvE05 struct {
	script   []int
	at       []time.Time
	firing   []int
	resolved []int
	okAt     []time.Time
}

func (n *hRecvE05) Notify(ctx context.Context, as ...*alert.Alert) (bool, error) {
	i := len(n.at)
	n.at = append(n.at, time.Now())
	f := 0
	for _, a := range as {
		if !a.Resolved() {
			f++
		}
	}
	n.firing = append(n.firing, f)
	n.resolved = append(n.resolved, len(as)-f)
	o := 0
	if i < len(n.script) {
		o = n.script[i]
	}
	switch o {
	case 1:
		return true, errors.New("503 try again")
	case 2:
		return false, errors.New("400 rejected")
	}
	n.okAt = append(n.okAt, time.Now())
	return false, nil
}

// VerifC05_EndToEnd: resolution through the assembled path (real provider, dispatcher
// started with Run, real pipeline with dedup / retry / record and a real notification
// log), on one fixed fair schedule with timers from a small grid. An alert fires and is
// notified; then it resolves, either by an explicit end time in a re-submission or by
// its resolve timeout running out (symbolic moment). With send_resolved the very next
// flush after the end has passed sends a notification listing it as resolved, never
// before the end has passed; without send_resolved no notification ever lists a
// resolved alert; afterwards the alert is gone from its group and the group is
// destroyed. If it fires again before that flush, it is reported firing instead.
//
//vf:quick unwind=24 decisions=700 goroutines=24 preempt=0 sched=fifo timerfires=60 paths=400000 steps=30000000
//vf:thorough unwind=24 decisions=1200 goroutines=64 preempt=0 sched=fifo timerfires=200 paths=4000000 steps=80000000
//vf:expect reach=resolved-reported reach=resolved-not-reported
func VerifC05_EndToEnd() {
	ctx, cancel := context.WithCancel(context.Background())
	defer cancel()
	logger := promslog.NewNopLogger()
	alerts, err := mem.NewAlerts(ctx, 100000*time.Hour, 0, nil, logger, eventrecorder.Recorder{}, prometheus.NewRegistry(), nil)
	if err != nil {
		panic(err)
	}
	sils, err := silence.New(silence.Options{Retention: time.Hour, Metrics: prometheus.NewRegistry()})
	if err != nil {
		panic(err)
	}
	nlog, err := nflog.New(nflog.Options{Retention: 100 * time.Hour, Metrics: prometheus.NewRegistry()})
	if err != nil {
		panic(err)
	}
	gm := marker.NewGroupMarker()
	sendResolved := vfBool("sendResolved")
	recv := &hRecvE05{}
	pipeline := notify.NewPipelineBuilder(prometheus.NewRegistry(), featurecontrol.NoopFlags{}, eventrecorder.Recorder{}).New(
		map[string][]notify.Integration{"r": {notify.NewIntegration(recv, hRSe05(sendResolved), "webhook", 0, "r")}},
		func() time.Duration { return 0 },
		inhibit.NewInhibitor(alerts, nil, logger, eventrecorder.Recorder{}),
		silence.NewSilencer(sils, logger, eventrecorder.Recorder{}),
		timeinterval.NewIntervener(nil), gm, nlog, nil)
	gwD := []time.Duration{0, 30 * time.Second}[vfChoice("groupWait", 2)]
	giD := []time.Duration{time.Minute, 5 * time.Minute, 10 * time.Second}[vfChoice("groupInterval", 2)]
	gw, gi := model.Duration(gwD), model.Duration(giD)
	ri := model.Duration(1000 * time.Hour)
	route := NewRoute(&config.Route{Receiver: "r", GroupBy: []model.LabelName{"alertname"}, GroupWait: &gw, GroupInterval: &gi, RepeatInterval: &ri}, nil)
	d := NewDispatcher(alerts, route, pipeline, gm, func(d time.Duration) time.Duration { return d },
		100000*time.Hour, nil, logger, eventrecorder.Recorder{}, nil, nil)
	vfGo("dispatcher", func() { d.Run(time.Now()) })
	defer func() {
		d.state.Store(DispatcherStateStopped)
		cancel()
		d.cancel()
		if vfNative() {
			d.finished.Wait()
		}
	}()
	vfAdvance(5 * time.Second)

	t0 := vfNow()
	lset := model.LabelSet{"alertname": "A", "job": "j"}
	put := func(start, end time.Time, timeout bool) {
		a := &types.Alert{}
		a.Labels = lset
		a.StartsAt, a.UpdatedAt, a.EndsAt, a.Timeout = start, vfNow(), end, timeout
		if alerts.Put(ctx, a) != nil {
			vfFail("alert-not-accepted")
		}
	}
	// fires; its end is the resolve timeout (5 minutes after the last submission)
	rt := 5 * time.Minute
	put(t0, t0.Add(rt), true)
	vfAdvance(gwD + time.Second)
	vfAssert("firing-notification-sent", len(recv.okAt) == 1 && recv.firing[0] == 1 && recv.resolved[0] == 0)

	// it resolves: an explicit end "now" at a symbolic moment, or the timeout runs out
	explicit := vfBool("explicitResolve")
	var endAt time.Time
	if explicit {
		vfAdvance(vfSeconds("resolveAfter", 1, 240))
		endAt = vfNow()
		put(t0, endAt, false)
	} else {
		endAt = t0.Add(rt)
	}
	// it may fire again shortly afterwards, before or after the flush that would report it
	refire := vfTier() > 0 && vfBool("refire") // (the quick tier covers re-firing in VerifC05_Flush only)
	var refiredAt time.Time
	if refire {
		if d := endAt.Add(vfSeconds("refireAfter", 1, 90)).Sub(vfNow()); d > 0 {
			vfAdvance(d)
		}
		refiredAt = vfNow()
		put(t0, refiredAt.Add(1000*time.Hour), false)
	}
	// run well past the next two flushes after the end, and past the first flush of
	// whatever the re-firing created
	vfAdvance(gwD + time.Second)
	if d := endAt.Add(2*giD + 2*time.Second).Sub(vfNow()); d > 0 {
		vfAdvance(d)
	}
	sawResolved := false
	for i, at := range recv.at {
		if recv.resolved[i] > 0 {
			sawResolved = true
			vfAssert("never-reported-resolved-before-its-end", !at.Before(endAt))
			vfAssert("resolved-only-with-send-resolved", sendResolved)
			if refire {
				vfAssert("not-reported-resolved-after-it-fired-again", !at.After(refiredAt))
			}
		}
	}
	// (a destroyed group stays registered until the next maintenance run)
	held := 0
	groups := 0
	d.routeGroupsSlice[route.Idx].groups.Range(func(_, el any) bool {
		ag := el.(*aggrGroup)
		if !ag.destroyed() {
			groups++
		}
		if _, err := ag.alerts.Get(lset.Fingerprint()); err == nil {
			held++
		}
		return true
	})
	vfObserve("held", held)
	vfObserve("live-groups", groups)
	vfObserve("deliveries", len(recv.at))
	switch {
	case refire:
		vfAssert("refired-alert-stays-in-its-group", held == 1)
		vfReach("refired-before-flush")
	case sendResolved:
		vfAssert("resolution-reported-at-the-next-flush", sawResolved)
		vfAssert("resolved-alert-removed-and-group-destroyed", held == 0 && groups == 0)
		vfReach("resolved-reported")
	default:
		vfAssert("no-resolved-notification", !sawResolved)
		vfAssert("resolved-alert-removed-and-group-destroyed", held == 0 && groups == 0)
		vfReach("resolved-not-reported")
	}
}
