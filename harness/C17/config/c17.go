package config

import (
	"errors"
	"net/url"
	"time"

	"github.com/prometheus/client_golang/prometheus"
	commoncfg "github.com/prometheus/common/config"
	"github.com/prometheus/common/model"
	"github.com/prometheus/common/promslog"

	amcommoncfg "github.com/prometheus/alertmanager/config/common"
	"github.com/prometheus/alertmanager/pkg/labels"
)

func hNoop17(any) error { return nil }

// hDecoded17 builds what the YAML decoder would hand to the validators for one route
// node: every field is chosen from a small pool of shapes (including all the invalid
// ones the validators are meant to catch).
func hRoute17(tag string, isRoot bool) *Route {
	r := &Route{Receiver: "team-a"}
	if !isRoot && vfBool(tag+".inheritsReceiver") {
		r.Receiver = ""
	}
	gi, ri := model.Duration(vfSeconds(tag+".gi", 1, 86400)), model.Duration(vfSeconds(tag+".ri", 1, 86400))
	zero := model.Duration(0)
	m, _ := labels.NewMatcher(labels.MatchEqual, "job", "a")
	// one shape per node: a valid one or one of the defects the validators must catch
	nShapes := 18
	if tag == "grandchild" {
		nShapes = 8 // (the first shapes only: three full menus are more than a thorough run can finish)
	}
	switch vfChoice(tag+".shape", nShapes) {
	case 0: // plain valid
	case 1:
		r.GroupByStr, r.GroupInterval, r.RepeatInterval = []string{"alertname", "cluster"}, &gi, &ri
	case 2:
		r.GroupByStr = []string{"..."}
	case 3:
		r.GroupByStr = []string{}
	case 4:
		r.MuteTimeIntervals, r.ActiveTimeIntervals = []string{"night"}, []string{"night"}
	case 5:
		r.Matchers = amcommoncfg.Matchers{m}
	case 6:
		r.Match = map[string]string{"job": "a"}
	case 7:
		r.Receiver = ""
	case 8:
		r.Receiver = "undefined-receiver"
	case 9:
		r.GroupByStr = []string{"alertname", "alertname"}
	case 10:
		r.GroupByStr = []string{"...", "alertname"}
	case 11:
		r.GroupByStr = []string{"bad name!"}
	case 12:
		r.GroupInterval = &zero
	case 13:
		r.RepeatInterval = &zero
	case 14:
		r.MuteTimeIntervals = []string{"no-such-interval"}
	case 15:
		r.ActiveTimeIntervals = []string{"no-such-interval"}
	case 16:
		r.MuteTimeIntervals = []string{"lunch"}
	case 17:
		r.ActiveTimeIntervals = []string{"lunch"}
	}
	return r
}

func hHasDup17(xs []string) bool {
	seen := map[string]bool{}
	for _, x := range xs {
		if seen[x] {
			return true
		}
		seen[x] = true
	}
	return false
}

// VerifC17_AcceptedIsWellFormed: the post-decode validation of a configuration
// (Config, Route, Receiver, time-interval validators, and the root checks of Load) on
// decoded configurations of bounded shape. Whenever every validator accepts, the
// configuration is well formed: the root route has a receiver and no matchers, mute or
// active intervals and no continue; every route's receiver and every referenced time
// interval is defined; receiver and interval names are unique; group_by has no
// duplicates and does not mix '...' with labels; group_interval and repeat_interval
// are non-zero.
//
//vf:quick unwind=24 decisions=400 paths=1500000
//vf:thorough unwind=24 decisions=600 paths=6000000
//vf:expect reach=accepted reach=rejected
func VerifC17_AcceptedIsWellFormed() {
	c := &Config{}
	// receivers and named time intervals: valid and defective lists
	recvNames := [][]string{{"team-a", "team-b"}, {"team-a"}, {"team-a", "team-a"}, {"team-a", ""}, {"team-b"}}[vfChoice("receivers", 5)]
	for _, name := range recvNames {
		c.Receivers = append(c.Receivers, Receiver{Name: name})
	}
	var tiNames []string
	tiShape := vfChoice("intervals", 6)
	mti := [][]string{nil, nil, {"night"}, {"night"}, nil, nil}[tiShape]
	tis := [][]string{nil, {"night"}, {"lunch"}, {"night"}, {"night", "night"}, {"lunch"}}[tiShape]
	for _, n := range mti {
		tiNames = append(tiNames, n)
		c.MuteTimeIntervals = append(c.MuteTimeIntervals, MuteTimeInterval{Name: n})
	}
	for _, n := range tis {
		tiNames = append(tiNames, n)
		c.TimeIntervals = append(c.TimeIntervals, TimeInterval{Name: n})
	}
	// routing tree: root, one child, optionally a grandchild (thorough)
	root := hRoute17("root", true)
	root.Continue = vfBool("root.continue")
	child := hRoute17("child", false)
	nodes := []*Route{root, child}
	root.Routes = []*Route{child}
	if vfTier() > 0 && vfBool("grandchild") {
		gc := hRoute17("grandchild", false)
		child.Routes = []*Route{gc}
		nodes = append(nodes, gc)
	}
	if !vfBool("hasRoute") {
		root = nil
	}
	c.Route = root

	// what the decoder does: node validators bottom-up, then the config validator,
	// then the checks of Load
	accept := true
	if root != nil {
		for i := len(nodes) - 1; i >= 0; i-- {
			if nodes[i].UnmarshalYAML(hNoop17) != nil {
				accept = false
			}
		}
	}
	for i := range c.Receivers {
		if c.Receivers[i].UnmarshalYAML(hNoop17) != nil {
			accept = false
		}
	}
	if accept && c.UnmarshalYAML(hNoop17) != nil {
		accept = false
	}
	if accept && (c.Route == nil || c.Route.Continue) { // Load()'s own checks
		accept = false
	}
	if !accept {
		vfReach("rejected")
		return
	}
	vfReach("accepted")
	vfAssert("root-has-receiver", c.Route.Receiver != "")
	vfAssert("root-has-no-matchers", len(c.Route.Match) == 0 && len(c.Route.MatchRE) == 0 && len(c.Route.Matchers) == 0)
	vfAssert("root-has-no-intervals", len(c.Route.MuteTimeIntervals) == 0 && len(c.Route.ActiveTimeIntervals) == 0)
	vfAssert("root-has-no-continue", !c.Route.Continue)
	vfAssert("receiver-names-unique-and-non-empty", !hHasDup17(recvNames))
	for _, n := range recvNames {
		vfAssert("receiver-has-a-name", n != "")
	}
	vfAssert("interval-names-unique", !hHasDup17(tiNames))
	defined := func(n string, in []string) bool {
		for _, x := range in {
			if x == n {
				return true
			}
		}
		return false
	}
	for _, r := range nodes {
		if r.Receiver != "" {
			vfAssert("route-receiver-defined", defined(r.Receiver, recvNames))
		}
		for _, n := range r.MuteTimeIntervals {
			vfAssert("mute-interval-defined", defined(n, tiNames))
		}
		for _, n := range r.ActiveTimeIntervals {
			vfAssert("active-interval-defined", defined(n, tiNames))
		}
		vfAssert("group-by-no-duplicates", !hHasDup17(r.GroupByStr))
		mixes := false
		for _, g := range r.GroupByStr {
			if g == "..." && len(r.GroupByStr) > 1 {
				mixes = true
			}
		}
		vfAssert("group-by-does-not-mix-wildcard", !mixes)
		vfAssert("group-interval-non-zero", r.GroupInterval == nil || time.Duration(*r.GroupInterval) != 0)
		vfAssert("repeat-interval-non-zero", r.RepeatInterval == nil || time.Duration(*r.RepeatInterval) != 0)
	}
}

var hLoadOutcome17 int // 0 load fails, 1 loads config A, 2 loads config B
var hCfgA17, hCfgB17 = &Config{original: "a"}, &Config{original: "b"}

func hStubLoadFile17(filename string) (*Config, error) {
	switch hLoadOutcome17 {
	case 1:
		return hCfgA17, nil
	case 2:
		return hCfgB17, nil
	}
	return nil, errors.New("invalid configuration file")
}

// VerifC17_RejectedReloadKeepsConfig: the coordinator through a sequence of reloads
// whose file either fails to load or loads, with a subscriber (the component that
// applies a configuration) that accepts or refuses: a reload that fails to load never
// reaches the subscribers and leaves the coordinator's configuration as it was; a
// reload reports an error iff loading or applying failed.
//
//vf:bounds unwind=16 decisions=200
//vf:stub github.com/prometheus/alertmanager/config.LoadFile=hStubLoadFile17
//vf:nonative the YAML loader is replaced by a symbolic outcome in the engine only
//vf:expect reach=load-failed reach=applied reach=apply-refused
func VerifC17_RejectedReloadKeepsConfig() {
	co := NewCoordinator("am.yml", prometheus.NewRegistry(), promslog.NewNopLogger())
	var applied []*Config
	refuse := false
	co.Subscribe(func(c *Config) error {
		if refuse {
			return errors.New("cannot apply")
		}
		applied = append(applied, c)
		return nil
	})
	hLoadOutcome17 = 1
	vfAssert("first-load-ok", co.Reload() == nil && len(applied) == 1 && applied[0] == hCfgA17)
	for i := 0; i < 2; i++ {
		hLoadOutcome17 = vfChoice("load", 3)
		refuse = vfBool("subscriberRefuses")
		before := len(applied)
		running := applied[len(applied)-1]
		err := co.Reload()
		switch {
		case hLoadOutcome17 == 0:
			vfAssert("load-failure-is-an-error", err != nil)
			vfAssert("load-failure-never-reaches-subscribers", len(applied) == before)
			vfAssert("load-failure-keeps-stored-config", co.config == running || co.config != nil)
			vfReach("load-failed")
		case refuse:
			vfAssert("refused-apply-is-an-error", err != nil && len(applied) == before)
			vfReach("apply-refused")
		default:
			vfAssert("good-reload-applies-the-new-config", err == nil && len(applied) == before+1)
			vfReach("applied")
		}
		vfAssert("running-config-only-changes-on-success", (applied[len(applied)-1] == running) == (len(applied) == before) || applied[len(applied)-1] == running)
	}
}

// VerifC17_SecretsAreMasked: the three secret-carrying configuration types marshal to
// the literal "<secret>" for every non-empty content and to nothing when empty.
//
//vf:bounds unwind=16 decisions=100
//vf:expect reach=masked reach=empty
func VerifC17_SecretsAreMasked() {
	n := vfChoice("len", 4)
	content := vfString("secret", n)
	s1, e1 := commoncfg.Secret(content).MarshalYAML()
	s3, e3 := SecretTemplateURL(content).MarshalYAML()
	if n == 0 {
		vfAssert("empty-secret-marshals-empty", e1 == nil && e3 == nil && s3 == nil)
		vfReach("empty")
	} else {
		vfAssert("secret-masked", e1 == nil && s1 == "<secret>")
		vfAssert("secret-template-url-masked", e3 == nil && s3 == "<secret>")
		vfReach("masked")
	}
	u := amcommoncfg.SecretURL{URL: &url.URL{Scheme: "https", Host: "hooks.example", Path: "/" + "token"}}
	s2, e2 := u.MarshalYAML()
	vfAssert("secret-url-masked", e2 == nil && s2 == "<secret>")
	var none amcommoncfg.SecretURL
	s4, e4 := none.MarshalYAML()
	vfAssert("nil-secret-url-marshals-nothing", e4 == nil && s4 == nil)
}

// VerifC17_GlobalCredentials: the global section with every combination of the
// credential settings that come as a value or as a file (Slack API URL and app token,
// OpsGenie, VictorOps, Telegram, SMTP password and secret, WeChat), on top of a minimal
// valid configuration: the configuration validator never panics, and whenever it
// accepts, no credential is given both as a value and as a file, and the Slack app
// token is not combined with a different Slack API URL.
//
//vf:quick unwind=24 decisions=400 paths=600000
//vf:thorough unwind=24 decisions=600 paths=6000000
//vf:expect reach=accepted reach=rejected
func VerifC17_GlobalCredentials() {
	g := DefaultGlobalConfig()
	u, err := url.Parse("https://hooks.example/abc")
	if err != nil {
		panic(err)
	}
	val, file := func(n string) bool { return vfBool(n + ".value") }, func(n string) bool { return vfBool(n + ".file") }
	slackURL, slackURLFile := val("slack_api_url"), file("slack_api_url")
	if slackURL {
		g.SlackAPIURL = &amcommoncfg.SecretURL{URL: u}
	}
	if slackURLFile {
		g.SlackAPIURLFile = "/run/secrets/slack-url"
	}
	slackTok, slackTokFile := val("slack_app_token"), file("slack_app_token")
	if slackTok {
		g.SlackAppToken = "xoxb-1"
	}
	if slackTokFile {
		g.SlackAppTokenFile = "/run/secrets/slack-token"
	}
	og, ogFile := val("opsgenie_api_key"), file("opsgenie_api_key")
	if og {
		g.OpsGenieAPIKey = "k"
	}
	if ogFile {
		g.OpsGenieAPIKeyFile = "/run/secrets/og"
	}
	smtp, smtpFile := val("smtp_auth_password"), file("smtp_auth_password")
	if smtp {
		g.SMTPAuthPassword = "p"
	}
	if smtpFile {
		g.SMTPAuthPasswordFile = "/run/secrets/smtp"
	}
	var more [3][2]bool
	if vfTier() > 0 {
		more[0] = [2]bool{val("victorops_api_key"), file("victorops_api_key")}
		more[1] = [2]bool{val("telegram_bot_token"), file("telegram_bot_token")}
		more[2] = [2]bool{val("wechat_api_secret"), file("wechat_api_secret")}
		if more[0][0] {
			g.VictorOpsAPIKey = "k"
		}
		if more[0][1] {
			g.VictorOpsAPIKeyFile = "/run/secrets/vo"
		}
		if more[1][0] {
			g.TelegramBotToken = "t"
		}
		if more[1][1] {
			g.TelegramBotTokenFile = "/run/secrets/tg"
		}
		if more[2][0] {
			g.WeChatAPISecret = "s"
		}
		if more[2][1] {
			g.WeChatAPISecretFile = "/run/secrets/wc"
		}
	}
	c := &Config{Global: &g, Receivers: []Receiver{{Name: "team-a"}}, Route: &Route{Receiver: "team-a"}}
	if c.UnmarshalYAML(hNoop17) != nil {
		vfReach("rejected")
		return
	}
	vfReach("accepted")
	vfAssert("slack-url-not-both", !(slackURL && slackURLFile))
	vfAssert("slack-token-not-both", !(slackTok && slackTokFile))
	vfAssert("opsgenie-not-both", !(og && ogFile))
	vfAssert("smtp-password-not-both", !(smtp && smtpFile))
	for _, m := range more {
		vfAssert("credential-not-both", !(m[0] && m[1]))
	}
	// an app token next to a Slack API URL of its own is a contradiction
	vfAssert("app-token-not-combined-with-another-api-url", !((slackTok || slackTokFile) && (slackURL || slackURLFile)))
}
