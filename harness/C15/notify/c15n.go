package notify

import (
	"context"

	"github.com/prometheus/client_golang/prometheus"
	"github.com/prometheus/common/model"
	"github.com/prometheus/common/promslog"

	"github.com/prometheus/alertmanager/alert"
	"github.com/prometheus/alertmanager/featurecontrol"
	"github.com/prometheus/alertmanager/marker"
	"github.com/prometheus/alertmanager/timeinterval"
)

// VerifC15_Gating: a flush at an arbitrary minute (the tick carried by the context)
// through the real mute-time and active-time stages with the real Intervener and two
// named intervals with symbolic time-of-day ranges. Nothing is sent iff a mute
// interval contains the tick or active intervals are configured and none contains it;
// the group is then reported muted with exactly the responsible interval names, and
// the marker is cleared otherwise; an unknown interval name is an error.
//
//vf:bounds unwind=12 decisions=300
//vf:expect reach=muted reach=inactive reach=sent reach=unknown-name
func VerifC15_Gating() {
	tick := vfCalendarTime("tick")
	mkInterval := func(tag string) []timeinterval.TimeInterval {
		tr := timeinterval.TimeRange{StartMinute: vfIntRange(tag+".start", 0, 1440), EndMinute: vfIntRange(tag+".end", 0, 1440)}
		vfAssume(tr.StartMinute < tr.EndMinute)
		return []timeinterval.TimeInterval{{Times: []timeinterval.TimeRange{tr}}}
	}
	ivs := map[string][]timeinterval.TimeInterval{"night": mkInterval("night"), "lunch": mkInterval("lunch")}
	iv := timeinterval.NewIntervener(ivs)
	in := func(name string) bool { return ivs[name][0].ContainsTime(tick) }
	mk := marker.NewGroupMarker()
	m := NewMetrics(prometheus.NewRegistry(), featurecontrol.NoopFlags{})
	a := &alert.Alert{}
	a.Labels = model.LabelSet{"alertname": "A"}
	alerts := []*alert.Alert{a}

	var muteNames, activeNames []string
	switch vfChoice("muteCfg", 4) {
	case 1:
		muteNames = []string{"night"}
	case 2:
		muteNames = []string{"night", "lunch"}
	case 3:
		muteNames = []string{"no-such-interval"}
	}
	switch vfChoice("activeCfg", 3) {
	case 1:
		activeNames = []string{"lunch"}
	case 2:
		activeNames = []string{"lunch", "night"}
	}
	ctx := WithRouteID(context.Background(), "route")
	ctx = WithGroupKey(ctx, "gk")
	ctx = WithNow(ctx, tick)
	ctx = WithMuteTimeIntervals(ctx, muteNames)
	ctx = WithActiveTimeIntervals(ctx, activeNames)
	vfAdvance(vfSeconds("wallClockAhead", 0, 86400)) // the wall clock is not what is tested

	l := promslog.NewNopLogger()
	_, out, err := NewTimeMuteStage(iv, mk, m).Exec(ctx, l, alerts...)
	if len(muteNames) == 1 && muteNames[0] == "no-such-interval" {
		vfAssert("unknown-interval-is-an-error", err != nil)
		vfReach("unknown-name")
		return
	}
	vfAssert("mute-stage-ok", err == nil)
	var wantMutedBy []string
	for _, n := range muteNames {
		if in(n) {
			wantMutedBy = append(wantMutedBy, n)
		}
	}
	same := func(a, b []string) bool {
		if len(a) != len(b) {
			return false
		}
		for i := range a {
			if a[i] != b[i] {
				return false
			}
		}
		return true
	}
	by, isMuted := mk.Muted("route", "gk")
	if len(wantMutedBy) > 0 {
		vfAssert("muted-flush-sends-nothing", len(out) == 0)
		vfAssert("group-reported-muted-by-the-containing-intervals", isMuted && same(by, wantMutedBy))
		vfReach("muted")
		return
	}
	vfAssert("not-muted-passes-all", len(out) == 1 && !isMuted)
	_, out2, err2 := NewTimeActiveStage(iv, mk, m).Exec(ctx, l, out...)
	vfAssert("active-stage-ok", err2 == nil)
	anyActive := false
	for _, n := range activeNames {
		if in(n) {
			anyActive = true
		}
	}
	by, isMuted = mk.Muted("route", "gk")
	if len(activeNames) > 0 && !anyActive {
		vfAssert("inactive-flush-sends-nothing", len(out2) == 0)
		vfAssert("group-reported-muted-by-active-intervals", isMuted && same(by, activeNames))
		vfReach("inactive")
	} else {
		vfAssert("active-passes-all", len(out2) == 1 && !isMuted)
		vfReach("sent")
	}
}
