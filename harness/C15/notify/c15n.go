package notify

import (
	"context"
	"time"

	"github.com/prometheus/client_golang/prometheus"
	"github.com/prometheus/common/model"
	"github.com/prometheus/common/promslog"

	"github.com/prometheus/alertmanager/alert"
	"github.com/prometheus/alertmanager/featurecontrol"
	"github.com/prometheus/alertmanager/marker"
	"github.com/prometheus/alertmanager/timeinterval"
)

// VerifC15_Gating: a flush at an arbitrary minute (the tick carried by the context)
// through the real mute-time and active-time stages with the real Intervener and two
// named intervals with symbolic time-of-day ranges. Nothing is sent iff a mute
// interval contains the tick or active intervals are configured and none contains it;
// the group is then reported muted with exactly the responsible interval names, and
// the marker is cleared otherwise; an unknown interval name is an error.
//
//vf:bounds unwind=12 decisions=300
//vf:expect reach=muted reach=inactive reach=sent reach=unknown-name
func VerifC15_Gating() {
	tick := vfCalendarTime("tick")
	mkInterval := func(tag string) []timeinterval.TimeInterval {
		tr := timeinterval.TimeRange{StartMinute: vfIntRange(tag+".start", 0, 1440), EndMinute: vfIntRange(tag+".end", 0, 1440)}
		vfAssume(tr.StartMinute < tr.EndMinute)
		return []timeinterval.TimeInterval{{Times: []timeinterval.TimeRange{tr}}}
	}
	ivs := map[string][]timeinterval.TimeInterval{"night": mkInterval("night"), "lunch": mkInterval("lunch")}
	iv := timeinterval.NewIntervener(ivs)
	in := func(name string) bool { return ivs[name][0].ContainsTime(tick) }
	mk := marker.NewGroupMarker()
	m := NewMetrics(prometheus.NewRegistry(), featurecontrol.NoopFlags{})
	a := &alert.Alert{}
	a.Labels = model.LabelSet{"alertname": "A"}
	alerts := []*alert.Alert{a}

	var muteNames, activeNames []string
	switch vfChoice("muteCfg", 4) {
	case 1:
		muteNames = []string{"night"}
	case 2:
		muteNames = []string{"night", "lunch"}
	case 3:
		muteNames = []string{"no-such-interval"}
	}
	switch vfChoice("activeCfg", 3) {
	case 1:
		activeNames = []string{"lunch"}
	case 2:
		activeNames = []string{"lunch", "night"}
	}
	ctx := WithRouteID(context.Background(), "route")
	ctx = WithGroupKey(ctx, "gk")
	ctx = WithNow(ctx, tick)
	ctx = WithMuteTimeIntervals(ctx, muteNames)
	ctx = WithActiveTimeIntervals(ctx, activeNames)
	vfAdvance(vfSeconds("wallClockAhead", 0, 86400)) // the wall clock is not what is tested

	l := promslog.NewNopLogger()
	_, out, err := NewTimeMuteStage(iv, mk, m).Exec(ctx, l, alerts...)
	if len(muteNames) == 1 && muteNames[0] == "no-such-interval" {
		vfAssert("unknown-interval-is-an-error", err != nil)
		vfReach("unknown-name")
		return
	}
	vfAssert("mute-stage-ok", err == nil)
	var wantMutedBy []string
	for _, n := range muteNames {
		if in(n) {
			wantMutedBy = append(wantMutedBy, n)
		}
	}
	same := func(a, b []string) bool {
		if len(a) != len(b) {
			return false
		}
		for i := range a {
			if a[i] != b[i] {
				return false
			}
		}
		return true
	}
	by, isMuted := mk.Muted("route", "gk")
	if len(wantMutedBy) > 0 {
		vfAssert("muted-flush-sends-nothing", len(out) == 0)
		vfAssert("group-reported-muted-by-the-containing-intervals", isMuted && same(by, wantMutedBy))
		vfReach("muted")
		return
	}
	vfAssert("not-muted-passes-all", len(out) == 1 && !isMuted)
	_, out2, err2 := NewTimeActiveStage(iv, mk, m).Exec(ctx, l, out...)
	vfAssert("active-stage-ok", err2 == nil)
	anyActive := false
	for _, n := range activeNames {
		if in(n) {
			anyActive = true
		}
	}
	by, isMuted = mk.Muted("route", "gk")
	if len(activeNames) > 0 && !anyActive {
		vfAssert("inactive-flush-sends-nothing", len(out2) == 0)
		vfAssert("group-reported-muted-by-active-intervals", isMuted && same(by, activeNames))
		vfReach("inactive")
	} else {
		vfAssert("active-passes-all", len(out2) == 1 && !isMuted)
		vfReach("sent")
	}
}

// VerifC15_GatingSequence: three successive flushes of one group through the real
// active-time and mute-time stages (in pipeline order) with one shared group marker, on
// a route with an active interval ("business", 09:00-17:00) and a mute interval
// ("maintenance", 09:15-10:00), at three arbitrary increasing minutes of one day. At
// every flush the alert is sent iff the tick lies in the active interval and outside the
// mute interval, the marker names exactly the interval responsible, and the route's own
// interval lists are what the configuration said, whatever the earlier flushes did.
//
//vf:quick unwind=12 decisions=300 paths=300000
//vf:thorough unwind=12 decisions=400 paths=3000000
//vf:expect reach=sent reach=muted reach=inactive
func VerifC15_GatingSequence() {
	ivs := map[string][]timeinterval.TimeInterval{
		"business":    {{Times: []timeinterval.TimeRange{{StartMinute: 9 * 60, EndMinute: 17 * 60}}}},
		"maintenance": {{Times: []timeinterval.TimeRange{{StartMinute: 9*60 + 15, EndMinute: 10 * 60}}}},
	}
	iv := timeinterval.NewIntervener(ivs)
	mk := marker.NewGroupMarker()
	m := NewMetrics(prometheus.NewRegistry(), featurecontrol.NoopFlags{})
	a := &alert.Alert{}
	a.Labels = model.LabelSet{"alertname": "A"}
	// the route's options, handed to every flush of its groups
	activeNames := []string{"business"}
	muteNames := []string{"maintenance"}
	l := promslog.NewNopLogger()
	prev := -1
	for f := 0; f < 3; f++ {
		tick := vfCalendarTime("tick")
		vfAssume(tick.Year() == 2024 && tick.Month() == time.May && tick.Day() == 6)
		minute := tick.Hour()*60 + tick.Minute()
		vfAssume(minute > prev)
		prev = minute
		ctx := WithRouteID(context.Background(), "route")
		ctx = WithGroupKey(ctx, "gk")
		ctx = WithNow(ctx, tick)
		ctx = WithMuteTimeIntervals(ctx, muteNames)
		ctx = WithActiveTimeIntervals(ctx, activeNames)
		_, out, err := NewTimeActiveStage(iv, mk, m).Exec(ctx, l, a)
		vfAssert("active-stage-ok", err == nil)
		if len(out) > 0 {
			_, out, err = NewTimeMuteStage(iv, mk, m).Exec(ctx, l, out...)
			vfAssert("mute-stage-ok", err == nil)
		}
		inBusiness := minute >= 9*60 && minute < 17*60
		inMaintenance := minute >= 9*60+15 && minute < 10*60
		by, isMuted := mk.Muted("route", "gk")
		switch {
		case !inBusiness:
			vfAssert("outside-the-active-interval-nothing-is-sent", len(out) == 0 && isMuted && len(by) == 1 && by[0] == "business")
			vfReach("inactive")
		case inMaintenance:
			vfAssert("inside-the-mute-interval-nothing-is-sent", len(out) == 0 && isMuted && len(by) == 1 && by[0] == "maintenance")
			vfReach("muted")
		default:
			vfAssert("active-and-not-muted-is-sent", len(out) == 1 && !isMuted)
			vfReach("sent")
		}
		vfAssert("route-options-untouched", len(activeNames) == 1 && activeNames[0] == "business" && len(muteNames) == 1 && muteNames[0] == "maintenance")
	}
}
