package timeinterval

import (
	"time"
)

// VerifC15_CalendarModel cross-checks the engine's abstract calendar against Go's:
// every explored instant is rebuilt natively from its components and the derived
// values (weekday, Unix seconds, days in month) must agree.
//
//vf:bounds unwind=8 decisions=120
//vf:expect reach=feb-leap reach=feb-common reach=thirty reach=thirtyone
func VerifC15_CalendarModel() {
	t := vfCalendarTime("t")
	vfObserve("unix", t.Unix())
	vfObserve("weekday", int(t.Weekday()))
	vfObserve("year", t.Year())
	vfObserve("month", int(t.Month()))
	vfObserve("day", t.Day())
	vfObserve("minute-of-day", t.Hour()*60+t.Minute())
	dim := daysInMonth(t)
	vfObserve("dim", dim)
	switch dim {
	case 28:
		vfReach("feb-common")
	case 29:
		vfReach("feb-leap")
	case 30:
		vfReach("thirty")
	case 31:
		vfReach("thirtyone")
	default:
		vfFail("days-in-month-out-of-range")
	}
	vfAssert("day-within-month", t.Day() >= 1 && t.Day() <= dim)
	// pin some instants so that different weekdays and century rules are exercised
	switch vfChoice("pin", 4) {
	case 1:
		vfAssume(t.Year() == 2099 && t.Month() == time.February)
	case 2:
		vfAssume(t.Year() == 2000 && t.Month() == time.February && t.Day() == 29)
	case 3:
		vfAssume(t.Weekday() == time.Sunday && t.Month() == time.December && t.Day() == 31)
	}
}

func hRange15(tag string, lo, hi int) InclusiveRange {
	return InclusiveRange{Begin: vfIntRange(tag+".begin", lo, hi), End: vfIntRange(tag+".end", lo, hi)}
}

// VerifC15_ContainsTime: for every accepted interval specification with one range per
// field (thorough: two time-of-day ranges for intervals without a location; each field possibly absent) and every minute of 1970..2099,
// ContainsTime equals the documented meaning: minute-of-day in a [start,end) range,
// weekday/month/year in an inclusive range, day of month in a range whose negative
// bounds count from the month's end and which is clamped to the month; an absent
// field matches everything. The fields are those of the instant read in the
// interval's location: none (UTC), any fixed offset of whole minutes within +-14h, or a
// zone whose offset changes once (a daylight-saving transition forwards or backwards
// at a fixed instant; the tz database itself is outside the claim).
//
//vf:quick unwind=12 decisions=400 paths=300000
//vf:thorough unwind=12 decisions=600 paths=3000000
//vf:expect reach=contained reach=not-contained reach=zoned reach=transition-zone
func VerifC15_ContainsTime() {
	t := vfCalendarTime("t")
	var ti TimeInterval
	nr := 1             // ranges per field ...
	hasLoc := vfBool("hasLocation")
	nr2 := 1 // ... two time-of-day ranges in the thorough tier, for intervals without a location
	if !hasLoc {
		nr2 += vfTier()
	}
	// accepted specifications (what the config validators let through)
	hasTimes, hasDays, hasDOM, hasMonths, hasYears := vfBool("hasTimes"), vfBool("hasWeekdays"), vfBool("hasDaysOfMonth"), vfBool("hasMonths"), vfBool("hasYears")
	if hasTimes {
		for i := 0; i < nr2; i++ {
			tr := TimeRange{StartMinute: vfIntRange("tr.start", 0, 1440), EndMinute: vfIntRange("tr.end", 0, 1440)}
			vfAssume(tr.StartMinute < tr.EndMinute)
			ti.Times = append(ti.Times, tr)
		}
	}
	if hasDays {
		for i := 0; i < nr; i++ {
			r := hRange15("wd", 0, 6)
			vfAssume(r.Begin <= r.End)
			ti.Weekdays = append(ti.Weekdays, WeekdayRange{r})
		}
	}
	if hasDOM {
		for i := 0; i < nr; i++ {
			r := hRange15("dom", -31, 31)
			vfAssume(r.Begin != 0 && r.End != 0)
			vfAssume(!(r.Begin < 0 && r.End > 0))
			cb, ce := r.Begin, r.End
			if cb < 0 {
				cb = 28 + cb
			}
			if ce < 0 {
				ce = 28 + ce
			}
			vfAssume(cb <= ce)
			ti.DaysOfMonth = append(ti.DaysOfMonth, DayOfMonthRange{r})
		}
	}
	if hasMonths {
		for i := 0; i < nr; i++ {
			r := hRange15("mon", 1, 12)
			vfAssume(r.Begin <= r.End)
			ti.Months = append(ti.Months, MonthRange{r})
		}
	}
	if hasYears {
		for i := 0; i < nr; i++ {
			r := hRange15("yr", 1960, 2110)
			vfAssume(r.Begin <= r.End)
			ti.Years = append(ti.Years, YearRange{r})
		}
	}

	// the interval's own location: absent (UTC) or any fixed offset of whole minutes
	// within UTC-14:00..UTC+14:00; the fields are then read in that zone
	tl := t
	if hasLoc {
		var zone *time.Location
		if vfBool("zone.hasTransition") {
			// a zone whose offset changes once, like New York on 2024-03-10 (02:00 -> 03:00
			// local) or on 2024-11-03 (02:00 -> 01:00 local)
			if vfBool("zone.fallBack") {
				zone = vfTransitionZone("fall", time.Date(2024, 11, 3, 6, 0, 0, 0, time.UTC).Unix(), -4*3600, -5*3600)
			} else {
				zone = vfTransitionZone("spring", time.Date(2024, 3, 10, 7, 0, 0, 0, time.UTC).Unix(), -5*3600, -4*3600)
			}
			// (kept tractable: instants of the year of the transition; the quick tier
			// combines such zones with the time-of-day and weekday fields only)
			vfAssume(t.Year() == 2024)
			if vfTier() == 0 {
				vfAssume(!hasDOM && !hasMonths && !hasYears)
			}
			vfReach("transition-zone")
		} else {
			zone = time.FixedZone("zone", 60*(vfIntRange("zone.offsetMinutes", 0, 1680)-840))
		}
		ti.Location = &Location{zone}
		tl = t.In(zone)
		vfReach("zoned")
	}

	got := ti.ContainsTime(t)

	// the documented meaning, branch-free
	mod := tl.Hour()*60 + tl.Minute()
	dim := daysInMonth(tl)
	day, month, year, wd := tl.Day(), int(tl.Month()), tl.Year(), int(tl.Weekday())
	want := true
	if hasTimes {
		any := false
		for _, r := range ti.Times {
			any = vfOr(any, vfAnd(mod >= r.StartMinute, mod < r.EndMinute))
		}
		want = vfAnd(want, any)
	}
	if hasDays {
		any := false
		for _, r := range ti.Weekdays {
			any = vfOr(any, vfAnd(wd >= r.Begin, wd <= r.End))
		}
		want = vfAnd(want, any)
	}
	if hasDOM {
		any := false
		for _, r := range ti.DaysOfMonth {
			b := vfIteInt(r.Begin < 0, dim+r.Begin+1, r.Begin)
			e := vfIteInt(r.End < 0, dim+r.End+1, r.End)
			// clamped to the month: [max(b,1), min(e,dim)]
			lo := vfIteInt(b < 1, 1, b)
			hi := vfIteInt(e > dim, dim, e)
			any = vfOr(any, vfAnd(day >= lo, day <= hi))
		}
		want = vfAnd(want, any)
	}
	if hasMonths {
		any := false
		for _, r := range ti.Months {
			any = vfOr(any, vfAnd(month >= r.Begin, month <= r.End))
		}
		want = vfAnd(want, any)
	}
	if hasYears {
		any := false
		for _, r := range ti.Years {
			any = vfOr(any, vfAnd(year >= r.Begin, year <= r.End))
		}
		want = vfAnd(want, any)
	}
	vfAssert("contains-equals-documented-meaning", got == want)
	if got {
		vfReach("contained")
	} else {
		vfReach("not-contained")
	}
}
