package dispatch

import (
	"context"
	"time"

	"github.com/prometheus/common/model"
	"github.com/prometheus/common/promslog"

	"github.com/prometheus/alertmanager/config"
	"github.com/prometheus/alertmanager/eventrecorder"
	"github.com/prometheus/alertmanager/marker"
	"github.com/prometheus/alertmanager/provider"
	"github.com/prometheus/alertmanager/types"
)

func hDispatcher14(route *Route) *Dispatcher {
	d := NewDispatcher(nil, route, nil, marker.NewGroupMarker(), func(d time.Duration) time.Duration { return d },
		1000*time.Hour, nil, promslog.NewNopLogger(), eventrecorder.Recorder{}, nil, nil)
	// what Run() does before handing over to run(), with the start far in the future
	// so that no aggregation group starts flushing
	d.state.Store(DispatcherStateWaitingToStart)
	d.startTimer = time.NewTimer(2000 * time.Hour)
	d.routeGroupsSlice = make([]routeAggrGroups, route.Idx+1)
	route.Walk(func(r *Route) { d.routeGroupsSlice[r.Idx] = routeAggrGroups{route: r} })
	return d
}

// VerifC14_Order: two or three back-to-back versions of one alert (refresh, resolve,
// re-fire) are published in submission order to the dispatcher's ingestion channel
// and consumed by its real worker goroutines; the engine explores every assignment
// of updates to workers and every interleaving at channel / sync.Map / store-lock
// granularity. At quiescence every group holding the alert holds the version
// submitted last. Natively the same goroutines run with the engine's schedule
// enforced at the synchronisation points involved.
//
//vf:quick unwind=12 decisions=300 paths=200000 preempt=1 goroutines=8
//vf:thorough unwind=12 decisions=400 paths=4000000 preempt=1 goroutines=10
//vf:expect reach=quiescent
//vf:note the real worker goroutines run natively as well, with the engine's schedule enforced by the sequencer
func VerifC14_Order() {
	gw := model.Duration(100 * time.Hour)
	cr := &config.Route{Receiver: "r", GroupBy: []model.LabelName{"alertname"}, GroupWait: &gw}
	// a second route that also matches (continue) puts the alert into two groups
	two := vfBool("twoRoutes")
	if two {
		cr.Routes = []*config.Route{
			{Receiver: "a", Continue: true, GroupBy: []model.LabelName{"alertname"}},
			{Receiver: "b", GroupByAll: true},
		}
	}
	route := NewRoute(cr, nil)
	// (two ingestion workers, what GOMAXPROCS <= 5 gives; a third worker multiplies the
	// schedules beyond what a thorough run can finish)
	d := hDispatcher14(route)

	n := 2
	if vfTier() > 0 {
		n = 3
	}
	// the versions were submitted during the last seconds: their timestamps lie in the
	// past, so that a resolved version is resolved for the code under test as well
	t0 := vfNow().Add(-10 * time.Second)
	lbls := model.LabelSet{"alertname": "A", "instance": "i1"}
	versions := make([]*types.Alert, n)
	for i := range versions {
		a := &types.Alert{}
		a.Labels = lbls
		a.StartsAt = t0.Add(-time.Hour)
		a.UpdatedAt = t0.Add(time.Duration(i+1) * time.Second) // strictly increasing submission times
		if vfBool("resolved") {
			a.EndsAt = a.UpdatedAt
		} else {
			a.EndsAt = t0.Add(time.Hour + vfSeconds("endIn", 0, 3600))
		}
		a.Annotations = model.LabelSet{"v": model.LabelValue([]string{"1", "2", "3"}[i])}
		versions[i] = a
	}

	// the alert may already sit in its group(s) from an earlier, quiet submission, so that
	// every racing update goes into a registered group
	if vfBool("groupExistsAlready") {
		v0 := &types.Alert{}
		v0.Labels = lbls
		v0.StartsAt = t0.Add(-time.Hour)
		v0.UpdatedAt = t0
		v0.EndsAt = t0.Add(time.Hour)
		d.routeAlert(d.ctx, v0)
	}
	{
		ch := make(chan *provider.Alert, n)
		done := make(chan struct{})
		it := provider.NewAlertIterator(ch, done, nil)
		for _, a := range versions {
			ch <- &provider.Alert{Data: a}
		}
		vfGo("run", func() { d.run(it) })
		// virtual time only advances once every goroutine is blocked: all updates
		// have been consumed and applied
		vfAdvance(time.Second)
	}
	vfReach("quiescent")

	groups := 0
	lastIdx := -1
	for i := range d.routeGroupsSlice {
		d.routeGroupsSlice[i].groups.Range(func(_, el any) bool {
			ag := el.(*aggrGroup)
			got, err := ag.alerts.Get(lbls.Fingerprint())
			if err != nil {
				return true
			}
			groups++
			for k, a := range versions {
				if got.UpdatedAt.Equal(a.UpdatedAt) {
					lastIdx = k
				}
			}
			vfAssert("group-holds-latest-version", got.UpdatedAt.Equal(versions[n-1].UpdatedAt) && got.EndsAt.Equal(versions[n-1].EndsAt))
			return true
		})
	}
	_ = lastIdx
	if two {
		vfAssert("in-both-groups", groups == 2)
	} else {
		vfAssert("in-its-group", groups == 1)
	}
	// shut the dispatcher down (what Stop does, plus releasing the start-timer goroutine)
	d.cancel()
	if vfNative() {
		// natively no goroutine may be left behind in the test's bubble
		d.state.Store(DispatcherStateStopped)
		d.startTimer.Reset(0)
		d.finished.Wait()
	}
	_ = context.Background
}
