package v2

import (
	"net/http"
	"net/url"
	"time"

	"github.com/go-openapi/strfmt"
	"github.com/prometheus/client_golang/prometheus"
	"github.com/prometheus/common/promslog"

	open_api_models "github.com/prometheus/alertmanager/api/v2/models"
	silence_ops "github.com/prometheus/alertmanager/api/v2/restapi/operations/silence"
	"github.com/prometheus/alertmanager/silence"
)

// VerifC12_APIRejects: POST /api/v2/silences. A silence whose end is not after its
// start, that ends in the past, whose matchers all match the empty string, whose
// regex does not compile or whose id is unknown is rejected and nothing is stored;
// an accepted create returns a fresh id and the silence never starts in the past.
//
//vf:bounds unwind=12 decisions=200
//vf:expect reach=accepted reach=rejected-times reach=rejected-past reach=rejected-matchers reach=rejected-unknown-id
func VerifC12_APIRejects() {
	sils, err := silence.New(silence.Options{Retention: time.Hour, Metrics: prometheus.NewRegistry()})
	if err != nil {
		panic(err)
	}
	api := &API{silences: sils, logger: promslog.NewNopLogger()}
	vfAdvance(vfSeconds("t", 0, 86400))
	now := vfNow()
	base := time.Unix(946684800, 0).UTC()
	start := base.Add(vfSeconds("start", 0, 3*86400))
	end := base.Add(vfSeconds("end", 0, 3*86400))
	vfAssume(!end.Equal(now)) // boundary instant left open
	s := func(x string) *string { return &x }
	b := func(x bool) *bool { return &x }
	mk := vfChoice("matcher", 4)
	var m *open_api_models.Matcher
	switch mk {
	case 0:
		m = &open_api_models.Matcher{Name: s("job"), Value: s("a"), IsRegex: b(false), IsEqual: b(true)}
	case 1:
		m = &open_api_models.Matcher{Name: s("job"), Value: s(""), IsRegex: b(false), IsEqual: b(true)} // matches the empty string
	case 2:
		m = &open_api_models.Matcher{Name: s("job"), Value: s("a("), IsRegex: b(true), IsEqual: b(true)} // bad regex
	case 3:
		m = &open_api_models.Matcher{Name: s("job"), Value: s(".*"), IsRegex: b(true), IsEqual: b(true)} // matches everything incl. empty
	}
	st, en := strfmt.DateTime(start), strfmt.DateTime(end)
	ps := &open_api_models.PostableSilence{}
	ps.StartsAt, ps.EndsAt = &st, &en
	ps.Comment, ps.CreatedBy = s("c"), s("me")
	ps.Matchers = open_api_models.Matchers{m}
	unknown := vfBool("unknownID")
	if unknown {
		ps.ID = "no-such-id"
	}
	resp := api.postSilencesHandler(silence_ops.PostSilencesParams{
		HTTPRequest: &http.Request{Method: "POST", URL: &url.URL{Path: "/api/v2/silences"}},
		Silence:     ps,
	})
	ok, isOK := resp.(*silence_ops.PostSilencesOK)
	_, isBad := resp.(*silence_ops.PostSilencesBadRequest)
	_, isNF := resp.(*silence_ops.PostSilencesNotFound)
	all, _, _ := sils.Query(vfCtx())
	badTimes := !start.Before(end)
	past := end.Before(now)
	badMatcher := mk != 0
	switch {
	case badTimes:
		vfAssert("end-not-after-start-rejected", isBad && len(all) == 0)
		vfReach("rejected-times")
	case past:
		vfAssert("end-in-past-rejected", isBad && len(all) == 0)
		vfReach("rejected-past")
	case badMatcher:
		vfAssert("invalid-matchers-rejected", isBad && len(all) == 0)
		vfReach("rejected-matchers")
	case unknown:
		vfAssert("unknown-id-rejected", isNF && len(all) == 0)
		vfReach("rejected-unknown-id")
	default:
		vfAssert("accepted", isOK && len(all) == 1)
		vfAssert("fresh-id-returned", ok.Payload.SilenceID != "" && ok.Payload.SilenceID == all[0].Id)
		vfAssert("never-starts-in-the-past", !all[0].StartsAt.AsTime().Before(now))
		vfAssert("end-as-requested", all[0].EndsAt.AsTime().Equal(end))
		vfReach("accepted")
	}
}
