package silence

import (
	"context"
	"time"

	"github.com/prometheus/client_golang/prometheus"
	"google.golang.org/protobuf/types/known/timestamppb"

	pb "github.com/prometheus/alertmanager/silence/silencepb"
)

func hMS12(v string) []*pb.MatcherSet {
	return []*pb.MatcherSet{{Matchers: []*pb.Matcher{{Type: pb.Matcher_EQUAL, Name: "job", Pattern: v}}}}
}

func hInStep12(s *Silences) bool {
	if len(s.st) != len(s.mi) || len(s.st) != len(s.vi) {
		return false
	}
	last := -1 << 62
	for _, sv := range s.vi {
		_, a := s.st[sv.id]
		_, b := s.mi[sv.id]
		if !a || !b || sv.version <= last {
			return false
		}
		last = sv.version
	}
	return true
}

// VerifC12_Lifecycle: create a silence, then k arbitrary steps (edits of comment,
// end, start or matchers, an edit under an unknown id, expire, GC) at arbitrary
// instants. Ids are fresh on create and never start in the past; an edit keeps the id
// exactly when it does not rewrite history; otherwise the old silence ends (expired)
// and a new id appears; unknown ids are rejected; expiring is idempotent and
// immediate; an expired silence stays expired under its id; a silence stays
// queryable until end+retention and is collected afterwards, never while pending or
// active; state and indexes stay in step.
//
//vf:quick unwind=16 decisions=400 paths=400000
//vf:thorough unwind=20 decisions=600 paths=4000000
//vf:expect reach=kept-id reach=new-id reach=unknown-id reach=expired reach=collected reach=invalid-edit
func VerifC12_Lifecycle() {
	k := 3 + vfTier()
	retention := time.Hour + vfSeconds("retention", 0, 3600)
	s, err := New(Options{Retention: retention, Metrics: prometheus.NewRegistry()})
	if err != nil {
		panic(err)
	}
	ctx := context.Background()
	now := vfNow()
	// the requested start may lie in the past
	reqStart := now.Add(vfSeconds("startIn", 0, 3600))
	if vfBool("startInPast") {
		reqStart = now.Add(-vfSeconds("startAgo", 1, 3600))
	}
	sil := &pb.Silence{MatcherSets: hMS12("a"), StartsAt: timestamppb.New(reqStart), EndsAt: timestamppb.New(now.Add(time.Hour + vfSeconds("len", 0, 3600))), Comment: "c0"}
	vfAssert("create-ok", s.Set(ctx, sil) == nil)
	id := sil.Id
	vfAssert("fresh-id", id != "")
	vfAssert("never-starts-in-the-past", !sil.StartsAt.AsTime().Before(now))
	vfAssert("in-step", hInStep12(s))
	wasExpired := false // id was observed expired at some instant
	gone := false       // id was garbage collected

	for slot := 0; slot < k; slot++ {
		vfAdvance(vfSeconds("advance", 1, 3*3600)) // two API calls never share one clock reading
		now = vfNow()
		cur, qerr := s.QueryOne(ctx, QIDs(id))
		if gone {
			vfAssert("collected-stays-gone", qerr == ErrNotFound)
		} else {
			vfAssert("queryable-until-collected", qerr == nil)
		}
		if qerr != nil {
			cur = nil
		}
		if cur != nil {
			// leave the boundary instants open
			vfAssume(!now.Equal(cur.StartsAt.AsTime()) && !now.Equal(cur.EndsAt.AsTime()))
			st := getState(cur, now)
			if wasExpired {
				vfAssert("expired-never-revives", st == SilenceStateExpired)
			}
			if st == SilenceStateExpired {
				wasExpired = true
			}
		}
		op := vfChoice("op", 7)
		switch {
		case op <= 3 && cur != nil: // edits through Set under the known id
			ed := cloneSilence(cur)
			newStart, newEnd := cur.StartsAt.AsTime(), cur.EndsAt.AsTime()
			switch op {
			case 0:
				ed.Comment = "edited"
			case 1:
				newEnd = now.Add(vfSeconds("endIn", 0, 7200))
			case 2:
				if vfBool("startInPast") {
					newStart = now.Add(-vfSeconds("startAgo", 1, 3600))
				} else {
					newStart = now.Add(vfSeconds("startIn", 0, 3600))
				}
			case 3:
				ed.MatcherSets = hMS12("b")
			}
			ed.StartsAt, ed.EndsAt = timestamppb.New(newStart), timestamppb.New(newEnd)
			// the API rejects silences that end in the past before they reach the store
			// (checked separately in VerifC12_APIRejects)
			vfAssume(!newEnd.Before(now))
			st := getState(cur, now)
			keep := op != 3 && ((st == SilenceStatePending && !newStart.Before(now)) ||
				(st == SilenceStateActive && newStart.Unix() == cur.StartsAt.AsTime().Unix() && !newEnd.Before(now)))
			n0 := len(s.st)
			serr := s.Set(ctx, ed)
			if newEnd.Before(newStart) {
				vfAssert("end-before-start-rejected", serr != nil && len(s.st) == n0)
				vfReach("invalid-edit")
				break
			}
			vfAssert("edit-ok", serr == nil)
			old, oerr := s.QueryOne(ctx, QIDs(id))
			vfAssert("old-id-still-queryable", oerr == nil)
			if keep {
				vfReach("kept-id")
				vfAssert("history-preserving-edit-keeps-id", ed.Id == id && len(s.st) == n0)
				vfAssert("edit-applied", old.EndsAt.AsTime().Equal(newEnd) && old.Comment == ed.Comment)
			} else {
				vfReach("new-id")
				vfAssert("history-rewriting-edit-gets-new-id", ed.Id != id && ed.Id != "" && len(s.st) == n0+1)
				vfAssert("new-silence-never-starts-in-the-past", !ed.StartsAt.AsTime().Before(now))
				vfAssert("old-silence-keeps-its-matchers", old.MatcherSets[0].Matchers[0].Pattern == "a")
				// the old one is over at every later instant
				vfAssert("old-silence-ended", !old.EndsAt.AsTime().After(now))
				if st == SilenceStateExpired {
					vfAssert("expired-silence-untouched", old.EndsAt.AsTime().Equal(cur.EndsAt.AsTime()) && old.StartsAt.AsTime().Equal(cur.StartsAt.AsTime()))
				}
				if st == SilenceStateActive {
					vfAssert("active-history-intact", old.StartsAt.AsTime().Equal(cur.StartsAt.AsTime()))
				}
			}
		case op == 4:
			n0 := len(s.st)
			u := &pb.Silence{Id: "no-such-id", MatcherSets: hMS12("a"), StartsAt: timestamppb.New(now), EndsAt: timestamppb.New(now.Add(time.Hour))}
			vfAssert("unknown-id-rejected", s.Set(ctx, u) == ErrNotFound && len(s.st) == n0)
			vfAssert("unknown-id-expire-rejected", s.Expire(ctx, "no-such-id") == ErrNotFound)
			vfReach("unknown-id")
		case op == 5 && cur != nil:
			vfAssert("expire-ok", s.Expire(ctx, id) == nil)
			e1, _ := s.QueryOne(ctx, QIDs(id))
			vfAssert("expire-ends-now-or-earlier", !e1.EndsAt.AsTime().After(now))
			vfAssert("expire-idempotent", s.Expire(ctx, id) == nil)
			e2, _ := s.QueryOne(ctx, QIDs(id))
			vfAssert("second-expire-changes-nothing", e2.EndsAt.AsTime().Equal(e1.EndsAt.AsTime()) && e2.UpdatedAt.AsTime().Equal(e1.UpdatedAt.AsTime()))
			vfReach("expired")
		case op == 6:
			var before *pb.MeshSilence
			if cur != nil {
				before = s.st[id]
				vfAssume(!before.ExpiresAt.AsTime().Equal(now))
			}
			_, gerr := s.GC()
			vfAssert("gc-ok", gerr == nil)
			if before != nil {
				_, still := s.st[id]
				pastRetention := before.ExpiresAt.AsTime().Before(now)
				vfAssert("collected-iff-past-retention", still == !pastRetention)
				vfAssert("retention-is-end-plus-retention", before.ExpiresAt.AsTime().Equal(before.Silence.EndsAt.AsTime().Add(retention)))
				if !still {
					vfAssert("never-collected-while-pending-or-active", getState(before.Silence, now) == SilenceStateExpired)
					gone = true
					vfReach("collected")
				}
			}
		}
		vfAssert("in-step", hInStep12(s))
	}
}

// VerifC12_ConcurrentEdit: a history-rewriting edit (other matchers) of an active
// silence runs concurrently with an edit that only extends its end, issued a second
// later; the goroutine of the first may be descheduled for a while at any
// synchronisation point while the clock moves on (slow=2), e.g. between reading the
// clock and taking the store's lock. Whatever the order, once both calls have returned
// the old id is expired, never active again, and the replacement is active under a new
// id. (Two calls completing at the very same clock reading are left out, as everywhere.)
//
//vf:quick unwind=16 decisions=500 paths=600000 goroutines=6 preempt=2 slow=2
//vf:thorough unwind=16 decisions=700 paths=6000000 goroutines=6 preempt=3 slow=3
//vf:expect reach=rewrite-first reach=extend-first
func VerifC12_ConcurrentEdit() {
	s, err := New(Options{Retention: time.Hour, Metrics: prometheus.NewRegistry()})
	if err != nil {
		panic(err)
	}
	ctx := context.Background()
	now := vfNow()
	orig := &pb.Silence{
		MatcherSets: []*pb.MatcherSet{{Matchers: []*pb.Matcher{{Type: pb.Matcher_EQUAL, Name: "job", Pattern: "a"}}}},
		StartsAt:    timestamppb.New(now),
		EndsAt:      timestamppb.New(now.Add(time.Hour)),
		Comment:     "original",
	}
	vfAssert("create-ok", s.Set(ctx, orig) == nil)
	oldID := orig.Id
	vfAdvance(time.Minute)

	var t1, t2 time.Time
	var err1, err2 error
	newID := ""
	done := make(chan struct{}, 2)
	vfGo("rewrite", func() {
		e := &pb.Silence{
			Id:          oldID,
			MatcherSets: []*pb.MatcherSet{{Matchers: []*pb.Matcher{{Type: pb.Matcher_EQUAL, Name: "job", Pattern: "b"}}}},
			StartsAt:    orig.StartsAt,
			EndsAt:      orig.EndsAt,
			Comment:     "other matchers",
		}
		err1 = s.Set(ctx, e)
		t1 = vfNow()
		newID = e.Id
		done <- struct{}{}
	})
	vfGo("extend", func() {
		vfAdvance(time.Second)
		e := &pb.Silence{
			Id:          oldID,
			MatcherSets: orig.MatcherSets,
			StartsAt:    orig.StartsAt,
			EndsAt:      timestamppb.New(now.Add(3 * time.Hour)),
			Comment:     "extended",
		}
		err2 = s.Set(ctx, e)
		t2 = vfNow()
		vfAdvance(time.Second)
		done <- struct{}{}
	})
	<-done
	<-done
	vfAssume(!t1.Equal(t2))
	_ = err2
	vfAdvance(time.Second) // (the instant of the expiry itself is a boundary instant)
	vfAssert("rewriting-edit-accepted", err1 == nil && newID != "" && newID != oldID)
	end := vfNow()
	old, qerr := s.QueryOne(ctx, QIDs(oldID))
	vfAssert("old-id-still-queryable", qerr == nil)
	if qerr == nil {
		vfAssert("old-silence-is-expired-once-rewritten", getState(old, end) == SilenceStateExpired)
	}
	repl, rerr := s.QueryOne(ctx, QIDs(newID))
	vfAssert("replacement-active-under-new-id", rerr == nil && getState(repl, end) == SilenceStateActive)
	if t1.Before(t2) {
		vfReach("rewrite-first")
	} else {
		vfReach("extend-first")
	}
}
