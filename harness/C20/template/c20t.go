package template

import (
	"net/url"
	"time"

	"github.com/prometheus/common/model"

	"github.com/prometheus/alertmanager/types"
)

// VerifC20_TemplateData: the data handed to templates lists exactly the alerts of the
// batch in order, has status firing iff some listed alert fires, and its common
// labels / annotations are the intersection of the pairs over the listed alerts.
//
//vf:bounds unwind=24 decisions=300
//vf:expect reach=firing reach=resolved
func VerifC20_TemplateData() {
	t := &Template{ExternalURL: &url.URL{Scheme: "http", Host: "am"}}
	now := vfNow()
	n := 1 + vfChoice("alerts", 3)
	lblPool := []model.LabelSet{
		{"alertname": "A", "job": "x", "env": "p"},
		{"alertname": "A", "job": "y", "env": "p"},
		{"alertname": "B", "job": "x"},
	}
	annPool := []model.LabelSet{{"summary": "s", "runbook": "r"}, {"summary": "s"}, {}}
	var as []*types.Alert
	anyFiring := false
	for i := 0; i < n; i++ {
		a := &types.Alert{}
		a.Labels = lblPool[vfChoice("labels", 3)]
		a.Annotations = annPool[vfChoice("annotations", 3)]
		a.StartsAt = now.Add(-time.Hour)
		if vfBool("resolved") {
			a.EndsAt = now.Add(-time.Minute)
		} else {
			a.EndsAt = now.Add(time.Hour)
			anyFiring = true
		}
		as = append(as, a)
	}
	d := t.Data("recv", model.LabelSet{"alertname": "A"}, nil, "first notification", as...)
	vfAssert("lists-exactly-the-batch", len(d.Alerts) == n)
	for i := range as {
		vfAssert("same-order-and-labels", d.Alerts[i].Labels["job"] == string(as[i].Labels["job"]) && d.Alerts[i].Fingerprint == as[i].Fingerprint().String())
		wantStatus := "firing"
		if as[i].Resolved() {
			wantStatus = "resolved"
		}
		vfAssert("per-alert-status", d.Alerts[i].Status == wantStatus)
	}
	if anyFiring {
		vfAssert("status-firing-iff-any-fires", d.Status == "firing")
		vfReach("firing")
	} else {
		vfAssert("status-firing-iff-any-fires", d.Status == "resolved")
		vfReach("resolved")
	}
	// intersection laws
	for _, k := range []string{"alertname", "job", "env"} {
		common := true
		v0, ok0 := as[0].Labels[model.LabelName(k)]
		for _, a := range as {
			v, ok := a.Labels[model.LabelName(k)]
			if !ok0 || !ok || v != v0 {
				common = false
			}
		}
		got, has := d.CommonLabels[k]
		vfAssert("common-labels-are-the-intersection", has == common && (!common || got == string(v0)))
	}
	for _, k := range []string{"summary", "runbook"} {
		common := true
		v0, ok0 := as[0].Annotations[model.LabelName(k)]
		for _, a := range as {
			v, ok := a.Annotations[model.LabelName(k)]
			if !ok0 || !ok || v != v0 {
				common = false
			}
		}
		got, has := d.CommonAnnotations[k]
		vfAssert("common-annotations-are-the-intersection", has == common && (!common || got == string(v0)))
	}
}
