package notify

import (
	"context"
	"errors"
	"fmt"
	"time"
	"strings"
	"unicode/utf8"

	"github.com/prometheus/client_golang/prometheus"
	"github.com/prometheus/common/model"
	"github.com/prometheus/common/promslog"

	"github.com/prometheus/alertmanager/alert"
	"github.com/prometheus/alertmanager/eventrecorder"
	"github.com/prometheus/alertmanager/featurecontrol"
	"github.com/prometheus/alertmanager/nflog"
	"github.com/prometheus/alertmanager/nflog/nflogpb"
)

type hRS20 bool

func (r hRS20) SendResolved() bool { return bool(r) }

// hNotifier20 is a scripted integration: per attempt an outcome (0 success,
// 1 recoverable error, 2 unrecoverable error); at attempt cancelAt the flush deadline
// strikes (the context is cancelled) and, if hang is set, the attempt blocks until then.
type hNotifier20 struct {
	name         string
	outcomes     []int
	cancelAt     int
	hang         bool
	cancel       func()
	calls        int
	seen         [][]*alert.Alert
	events       *[]string
	afterCtxDone bool
}

func (n *hNotifier20) Notify(ctx context.Context, as ...*alert.Alert) (bool, error) {
	if ctx.Err() != nil {
		n.afterCtxDone = true
	}
	i := n.calls
	n.calls++
	n.seen = append(n.seen, as)
	if i == n.cancelAt {
		n.cancel()
		if n.hang {
			<-ctx.Done()
			return true, ctx.Err()
		}
	}
	o := 1
	if i < len(n.outcomes) {
		o = n.outcomes[i]
	}
	switch o {
	case 0:
		if n.events != nil {
			*n.events = append(*n.events, "ok-"+n.name)
		}
		return false, nil
	case 2:
		return false, fmt.Errorf("%s: unrecoverable", n.name)
	}
	return true, fmt.Errorf("%s: recoverable #%d", n.name, i)
}

func hAlerts20(now time.Time) []*alert.Alert {
	f := &alert.Alert{}
	f.Labels = model.LabelSet{"alertname": "F"}
	f.StartsAt, f.EndsAt, f.UpdatedAt = now.Add(-time.Minute), time.Time{}, now
	r := &alert.Alert{}
	r.Labels = model.LabelSet{"alertname": "R"}
	r.StartsAt, r.EndsAt, r.UpdatedAt = now.Add(-time.Hour), now.Add(-time.Minute), now
	return []*alert.Alert{f, r}
}

// VerifC20_RetryPolicy: every sequence of per-attempt outcomes (success, recoverable,
// unrecoverable, hang) of up to 3-4 attempts and every deadline position. After a
// success no further attempt and no error; after an unrecoverable error no further
// attempt and an error; recoverable errors are retried until the deadline, then the
// flush fails with the last integration error; no attempt starts after the deadline
// was seen; with send_resolved off the integration never sees a resolved alert and an
// all-resolved batch is reported sent without calling it.
//
//vf:quick unwind=16 decisions=300 goroutines=4
//vf:thorough unwind=20 decisions=400 goroutines=4
//vf:expect reach=success reach=unrecoverable reach=deadline reach=retried reach=all-resolved-skipped
func VerifC20_RetryPolicy() {
	maxAttempts := 3 + vfTier()
	ctx, cancel := context.WithCancel(context.Background())
	defer cancel()
	sendResolved := vfBool("sendResolved")
	n := &hNotifier20{name: "wh", cancel: cancel}
	for i := 0; i < maxAttempts; i++ {
		n.outcomes = append(n.outcomes, vfChoice("outcome", 3))
	}
	n.cancelAt = vfChoice("deadlineAtAttempt", maxAttempts) // the deadline always strikes eventually
	n.hang = vfBool("hang")
	now := vfNow()
	alerts := hAlerts20(now)
	onlyResolved := vfBool("onlyResolved")
	if onlyResolved {
		alerts = alerts[1:]
		ctx = WithFiringAlerts(ctx, []uint64{})
	} else {
		ctx = WithFiringAlerts(ctx, []uint64{1})
	}
	ctx = WithGroupKey(ctx, "gk")
	m := NewMetrics(prometheus.NewRegistry(), featurecontrol.NoopFlags{})
	stage := NewRetryStage(NewIntegration(n, hRS20(sendResolved), "webhook", 0, "recv"), "recv", m, eventrecorder.Recorder{})
	_, out, err := stage.Exec(ctx, promslog.NewNopLogger(), alerts...)

	if !sendResolved && onlyResolved {
		vfAssert("all-resolved-reported-sent-without-calling", err == nil && n.calls == 0 && len(out) == 1)
		vfReach("all-resolved-skipped")
		return
	}
	vfAssert("attempted", n.calls >= 1)
	vfAssert("no-attempt-after-deadline-was-seen", !n.afterCtxDone)
	// what the integration saw
	for _, batch := range n.seen {
		for _, a := range batch {
			if !sendResolved {
				vfAssert("send-resolved-off-hides-resolved", !a.Resolved())
			}
		}
		want := len(alerts)
		if !sendResolved && !onlyResolved {
			want = 1
		}
		vfAssert("batch-complete", len(batch) == want)
	}
	// replay the policy on the script
	last := n.calls - 1
	lastOutcome := 1
	if last < len(n.outcomes) {
		lastOutcome = n.outcomes[last]
	}
	hung := n.hang && last == n.cancelAt
	for i := 0; i < last; i++ {
		vfAssert("only-recoverable-errors-are-retried", n.outcomes[i] == 1 && !(n.hang && i == n.cancelAt))
		vfReach("retried")
	}
	switch {
	case !hung && lastOutcome == 0:
		vfAssert("success-ends-retrying-without-error", err == nil && len(out) == len(alerts))
		vfReach("success")
	case !hung && lastOutcome == 2:
		vfAssert("unrecoverable-fails-the-flush", err != nil)
		vfReach("unrecoverable")
	default:
		// recoverable (or hung) last attempt: only the deadline may end the retrying
		vfAssert("recoverable-retried-until-deadline", err != nil && last >= n.cancelAt)
		vfReach("deadline")
	}
}

type hLog20 struct {
	events *[]string
	logged map[string]bool
}

func (l *hLog20) Log(r *nflogpb.Receiver, gkey string, firing, resolved []uint64, store *nflog.Store, expiry time.Duration) error {
	name := fmt.Sprintf("%s-%d", r.Integration, r.Idx)
	*l.events = append(*l.events, "log-"+name)
	l.logged[name] = true
	return nil
}

func (l *hLog20) Query(params ...nflog.QueryParam) ([]*nflogpb.Entry, error) {
	return nil, nflog.ErrNotFound
}

// VerifC20_RecordAfterSuccess: two integrations of one receiver run concurrently
// (real FanoutStage, each Retry -> SetNotifies). An integration's notification is
// recorded iff it reported success, and only after it did; the other integration's
// failure or hang neither prevents the send nor the record; the flush reports
// failure iff some integration failed.
//
//vf:quick unwind=16 decisions=300 goroutines=6 preempt=2
//vf:thorough unwind=16 decisions=400 goroutines=6 preempt=3
//vf:expect reach=both-ok reach=one-failed reach=hang-isolated
func VerifC20_RecordAfterSuccess() {
	ctx, cancel := context.WithCancel(context.Background())
	defer cancel()
	var events []string
	log := &hLog20{events: &events, logged: map[string]bool{}}
	m := NewMetrics(prometheus.NewRegistry(), featurecontrol.NoopFlags{})
	now := vfNow()
	alerts := hAlerts20(now)[:1]
	ctx = WithGroupKey(ctx, "gk")
	ctx = WithFiringAlerts(ctx, []uint64{1})
	ctx = WithResolvedAlerts(ctx, []uint64{})
	ctx = WithRepeatInterval(ctx, time.Hour)
	ns := make([]*hNotifier20, 2)
	beh := make([]int, 2)
	var integrations []Integration
	for i := 0; i < 2; i++ {
		beh[i] = vfChoice("behaviour", 3) // 0 succeed (maybe after one retry), 1 unrecoverable, 2 hang until the deadline
		n := &hNotifier20{name: fmt.Sprintf("webhook-%d", i), cancel: func() {}, cancelAt: -1, events: &events}
		switch beh[i] {
		case 0:
			if vfBool("afterRetry") {
				n.outcomes = []int{1, 0}
			} else {
				n.outcomes = []int{0}
			}
		case 1:
			n.outcomes = []int{2}
		case 2:
			n.cancelAt, n.hang, n.cancel = 0, true, func() {}
		}
		ns[i] = n
		integrations = append(integrations, NewIntegration(n, hRS20(true), "webhook", i, "recv"))
	}
	// the receiver's real stage: per integration ClusterWait -> Dedup -> Retry -> SetNotifies
	fan := createReceiverStage("recv", integrations, func() time.Duration { return 0 }, log, m, eventrecorder.Recorder{})
	anyHang := beh[0] == 2 || beh[1] == 2
	if anyHang {
		// the flush deadline frees a hanging integration
		vfGo("deadline", func() { vfAdvance(time.Minute); cancel() })
	}
	_, _, err := fan.Exec(ctx, promslog.NewNopLogger(), alerts...)
	failed := 0
	for i := 0; i < 2; i++ {
		name := fmt.Sprintf("webhook-%d", i)
		ok := beh[i] == 0
		vfAssert("recorded-iff-integration-succeeded", log.logged[name] == ok)
		if ok {
			// the record comes after the success report
			okAt, logAt := -1, -1
			for k, e := range events {
				if e == "ok-"+name {
					okAt = k
				}
				if e == "log-"+name {
					logAt = k
				}
			}
			vfAssert("recorded-only-after-success", okAt >= 0 && logAt > okAt)
		} else {
			failed++
		}
	}
	vfAssert("flush-fails-iff-some-integration-failed", (err != nil) == (failed > 0))
	switch {
	case failed == 0:
		vfReach("both-ok")
	case anyHang && (beh[0] == 0 || beh[1] == 0):
		vfReach("hang-isolated")
	default:
		vfReach("one-failed")
	}
	_ = errors.New
}

// VerifC20_RetrierCheck: for every status code, 2xx is success, 5xx and listed codes
// are retried, everything else fails without retry.
//
//vf:bounds unwind=8 decisions=60
//vf:expect reach=2xx reach=retry reach=no-retry
func VerifC20_RetrierCheck() {
	r := &Retrier{RetryCodes: []int{429}}
	code := vfIntRange("status", 100, 599)
	retry, err := r.Check(code, nil)
	switch {
	case code >= 200 && code <= 299:
		vfAssert("2xx-is-success", !retry && err == nil)
		vfReach("2xx")
	case code >= 500 || code == 429:
		vfAssert("5xx-and-listed-codes-are-retried", retry && err != nil)
		vfReach("retry")
	default:
		vfAssert("other-codes-fail-without-retry", !retry && err != nil)
		vfReach("no-retry")
	}
}

// VerifC20_Truncate: text truncation on an arbitrary valid UTF-8 string of up to 6
// (quick) / 8 (thorough) bytes and every limit 0..8: the result never exceeds the
// limit (in bytes resp. runes), is still valid UTF-8 (no character is split), is the
// input itself when that already fits, and the flag tells whether it was cut.
//
//vf:quick unwind=40 decisions=600 paths=1500000 arith=bv steps=8000000
//vf:thorough unwind=60 decisions=900 paths=20000000 arith=bv steps=16000000
//vf:expect reach=fits reach=cut-bytes reach=cut-runes
func VerifC20_Truncate() {
	n := vfChoice("len", 7+2*vfTier())
	s := vfString("s", n)
	vfAssume(utf8.ValidString(s))
	limit := vfChoice("limit", 9)
	// bytes
	out, cut := TruncateInBytes(s, limit)
	vfAssert("bytes-within-limit", len(out) <= limit)
	vfAssert("bytes-valid-utf8", utf8.ValidString(out))
	if len(s) <= limit {
		vfAssert("bytes-unchanged-when-it-fits", out == s && !cut)
		vfReach("fits")
	} else {
		vfAssert("bytes-flag-says-cut", cut)
		vfReach("cut-bytes")
	}
	// runes
	rs := []rune(s)
	out2, cut2 := TruncateInRunes(s, limit)
	vfAssert("runes-within-limit", len([]rune(out2)) <= limit)
	vfAssert("runes-valid-utf8", utf8.ValidString(out2))
	if len(rs) <= limit {
		vfAssert("runes-unchanged-when-it-fits", out2 == s && !cut2)
	} else {
		vfAssert("runes-flag-says-cut", cut2)
		vfReach("cut-runes")
	}
}

// VerifC20_TruncateLong: byte truncation of long multi-byte text (more runes than the
// runtime's stack buffer for []rune conversions holds, so the rune slice has no spare
// capacity): 40 copies of a 1-4 byte character behind up to two arbitrary leading
// bytes, for limits around every interesting point (tiny, below / at / above the
// rune count, just below the byte length). Never a panic, never above the limit,
// always valid UTF-8, unchanged iff it fits.
//
//vf:quick unwind=120 decisions=900 paths=400000 arith=bv steps=20000000
//vf:thorough unwind=120 decisions=1200 paths=4000000 arith=bv steps=60000000
//vf:expect reach=fits reach=cut
func VerifC20_TruncateLong() {
	unit := []string{"a", "é", "€", "😀"}[vfChoice("unit", 4)]
	head := vfString("head", vfChoice("headLen", 3))
	vfAssume(utf8.ValidString(head))
	s := head + strings.Repeat(unit, 40)
	limits := []int{0, 2, 3, 4, 7, 39, 40, 41, 43, 44, 45, 46, 100, 120, len(s) - 2, len(s) - 1, len(s), len(s) + 1}
	limit := limits[vfChoice("limit", len(limits))]
	out, cut := TruncateInBytes(s, limit)
	vfAssert("bytes-within-limit", len(out) <= limit || (!cut && out == s))
	vfAssert("bytes-valid-utf8", utf8.ValidString(out))
	if len(s) <= limit {
		vfAssert("bytes-unchanged-when-it-fits", out == s && !cut)
		vfReach("fits")
	} else {
		vfAssert("bytes-flag-says-cut", cut && len(out) <= limit)
		vfReach("cut")
	}
	out2, cut2 := TruncateInRunes(s, limit)
	vfAssert("runes-within-limit", utf8.RuneCountInString(out2) <= limit || (!cut2 && out2 == s))
	vfAssert("runes-valid-utf8", utf8.ValidString(out2))
}
