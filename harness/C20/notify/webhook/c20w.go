package webhook

import (
	"github.com/prometheus/alertmanager/types"
)

// VerifC20_WebhookMaxAlerts: at most max_alerts alerts are kept (0 = unlimited), in
// order, and the number dropped is reported exactly.
//
//vf:bounds unwind=12 decisions=100
//vf:expect reach=truncated reach=unlimited reach=fits
func VerifC20_WebhookMaxAlerts() {
	n := vfChoice("alerts", 5)
	as := make([]*types.Alert, n)
	for i := range as {
		as[i] = &types.Alert{}
	}
	max := uint64(vfIntRange("maxAlerts", 0, 6))
	kept, dropped := truncateAlerts(max, as)
	vfAssert("kept-plus-dropped-is-all", uint64(len(kept))+dropped == uint64(n))
	for i := range kept {
		vfAssert("order-preserved", kept[i] == as[i])
	}
	switch {
	case max == 0:
		vfAssert("zero-means-unlimited", dropped == 0)
		vfReach("unlimited")
	case uint64(n) > max:
		vfAssert("never-more-than-max", uint64(len(kept)) == max)
		vfReach("truncated")
	default:
		vfAssert("fits-untouched", dropped == 0)
		vfReach("fits")
	}
}
