package webhook

import (
	"context"
	"encoding/json"
	"io"
	"log/slog"
	"net/http"
	"strings"
	"time"

	"github.com/prometheus/common/promslog"

	"github.com/prometheus/alertmanager/notify"
	"github.com/prometheus/alertmanager/template"
	"github.com/prometheus/alertmanager/types"
)

// VerifC20_WebhookMaxAlerts: at most max_alerts alerts are kept (0 = unlimited), in
// order, and the number dropped is reported exactly.
//
//vf:bounds unwind=12 decisions=100
//vf:expect reach=truncated reach=unlimited reach=fits
func VerifC20_WebhookMaxAlerts() {
	n := vfChoice("alerts", 5)
	as := make([]*types.Alert, n)
	for i := range as {
		as[i] = &types.Alert{}
	}
	max := uint64(vfIntRange("maxAlerts", 0, 6))
	kept, dropped := truncateAlerts(max, as)
	vfAssert("kept-plus-dropped-is-all", uint64(len(kept))+dropped == uint64(n))
	for i := range kept {
		vfAssert("order-preserved", kept[i] == as[i])
	}
	switch {
	case max == 0:
		vfAssert("zero-means-unlimited", dropped == 0)
		vfReach("unlimited")
	case uint64(n) > max:
		vfAssert("never-more-than-max", uint64(len(kept)) == max)
		vfReach("truncated")
	default:
		vfAssert("fits-untouched", dropped == 0)
		vfReach("fits")
	}
}

// engine-only stubs: template data, URL templating, JSON encoding and the HTTP POST are
// outside the engine; the POST is scripted (answers after a while, or never)
func hTemplateData20(ctx context.Context, t *template.Template, as []*types.Alert, l *slog.Logger) *template.Data {
	return &template.Data{}
}
func hTmplText20(t *template.Template, d *template.Data, err *error) func(string) string {
	return func(s string) string { return s }
}
func hEncode20(e *json.Encoder, v any) error { return nil }

var hPostTakes20 time.Duration
var hPostStatus20 int

func hPostJSON20(ctx context.Context, c *http.Client, url string, body io.Reader) (*http.Response, error) {
	select {
	case <-time.After(hPostTakes20):
		return &http.Response{StatusCode: hPostStatus20, Body: io.NopCloser(strings.NewReader(""))}, nil
	case <-ctx.Done():
		return nil, ctx.Err()
	}
}

// VerifC20_WebhookTransportErrors: the webhook notifier's answer to "may this be
// retried?". With an optional per-attempt timeout (shorter than the flush deadline), a
// POST that answers after an arbitrary while with 200, 500 or 400, or never: a 2xx is a
// success; a 5xx and every transport failure (the per-attempt timeout included) are
// recoverable, so that the retry stage tries again until the flush deadline; a 4xx is
// not.
//
//vf:bounds unwind=12 decisions=200 goroutines=4
//vf:nonative template execution, JSON and HTTP are stubbed (engine-only harness)
//vf:stub github.com/prometheus/alertmanager/notify.GetTemplateData=hTemplateData20
//vf:stub github.com/prometheus/alertmanager/notify.TmplText=hTmplText20
//vf:stub (*encoding/json.Encoder).Encode=hEncode20
//vf:stub github.com/prometheus/alertmanager/notify.PostJSON=hPostJSON20
//vf:expect reach=attempt-timed-out reach=answered
func VerifC20_WebhookTransportErrors() {
	conf := &WebhookConfig{URL: "http://example/hook"}
	if vfBool("hasAttemptTimeout") {
		conf.Timeout = 10 * time.Second
	}
	n := &Notifier{conf: conf, logger: promslog.NewNopLogger(), retrier: &notify.Retrier{}}
	hPostTakes20 = vfSeconds("postTakes", 0, 30)
	hPostStatus20 = []int{200, 500, 400}[vfChoice("status", 3)]
	vfAssume(hPostTakes20 != 10*time.Second)
	ctx, cancel := context.WithTimeout(context.Background(), 5*time.Minute) // the flush deadline
	defer cancel()
	ctx = notify.WithGroupKey(ctx, "gk")
	retry, err := n.Notify(ctx, &types.Alert{})
	timedOut := conf.Timeout > 0 && hPostTakes20 > conf.Timeout
	switch {
	case timedOut:
		vfAssert("attempt-timeout-is-an-error", err != nil)
		vfAssert("attempt-timeout-is-recoverable", retry)
		vfReach("attempt-timed-out")
	case hPostStatus20 == 200:
		vfAssert("2xx-is-success", err == nil && !retry)
		vfReach("answered")
	case hPostStatus20 == 500:
		vfAssert("5xx-is-recoverable", err != nil && retry)
	default:
		vfAssert("4xx-is-not-recoverable", err != nil && !retry)
	}
}
