package notify

import (
	"context"
	"time"

	"github.com/prometheus/client_golang/prometheus"
	"github.com/prometheus/common/model"
	"github.com/prometheus/common/promslog"

	"github.com/prometheus/alertmanager/alert"
	"github.com/prometheus/alertmanager/eventrecorder"
	"github.com/prometheus/alertmanager/featurecontrol"
	"github.com/prometheus/alertmanager/nflog"
)

type hRS20b bool

func (r hRS20b) SendResolved() bool { return bool(r) }

type hSeen20b struct {
	inst     model.LabelValue
	resolved bool
}

// hNotifier20b records what each notification lists, as seen at the moment of delivery.
type hNotifier20b struct {
	calls [][]hSeen20b
}

func (n *hNotifier20b) Notify(ctx context.Context, as ...*alert.Alert) (bool, error) {
	var l []hSeen20b
	for _, a := range as {
		l = append(l, hSeen20b{a.Labels["instance"], a.Resolved()})
	}
	n.calls = append(n.calls, l)
	return false, nil
}

// VerifC20_ExactBatch (the data handed to every integration is exactly its batch, also
// when sibling integrations of the receiver filter theirs): a receiver with one or two integrations, each with its own
// send_resolved setting, behind the real fan-out, dedup, retry and record stages and
// a real notification log. Flush 1 hands over 2-3 alerts, each firing or already
// resolved; at flush 2 (one group interval later) every alert that was firing is
// firing or resolved, and a new alert may have joined. For every interleaving of the
// integrations' goroutines: an integration without send_resolved never lists a
// resolved alert and lists exactly the firing ones; one with send_resolved lists
// exactly the batch it was given (every alert once, with its status), and is sent a
// notification listing the alert as resolved at the flush after it resolved; a group
// whose alerts had all resolved before the first flush sends nothing.
//
//vf:quick unwind=16 decisions=500 goroutines=8 preempt=1 paths=600000
//vf:thorough unwind=16 decisions=700 goroutines=8 preempt=2 paths=6000000
//vf:expect reach=resolved-reported reach=filtered reach=nothing-sent
func VerifC20_ExactBatch() {
	nI := 1 + vfChoice("integrations", 2)
	m := NewMetrics(prometheus.NewRegistry(), featurecontrol.NoopFlags{})
	l, err := nflog.New(nflog.Options{Retention: 100 * time.Hour, Metrics: prometheus.NewRegistry()})
	if err != nil {
		panic(err)
	}
	sr := make([]bool, nI)
	ns := make([]*hNotifier20b, nI)
	var integrations []Integration
	for i := 0; i < nI; i++ {
		sr[i] = vfBool("sendResolved")
		ns[i] = &hNotifier20b{}
		integrations = append(integrations, NewIntegration(ns[i], hRS20b(sr[i]), "webhook", i, "recv"))
	}
	stage := createReceiverStage("recv", integrations, func() time.Duration { return 0 }, l, m, eventrecorder.Recorder{})

	t0 := vfNow()
	names := []model.LabelValue{"a", "b", "c"}
	mkAlert := func(i int, resolved bool) *alert.Alert {
		a := &alert.Alert{}
		a.Labels = model.LabelSet{"alertname": "A", "instance": names[i]}
		a.StartsAt, a.UpdatedAt = t0.Add(-time.Hour), t0.Add(-time.Minute)
		if resolved {
			a.EndsAt = t0.Add(-time.Second)
		} else {
			a.EndsAt = t0.Add(100 * time.Hour)
		}
		return a
	}
	flush := func(batch []*alert.Alert) {
		ctx, cancel := context.WithTimeout(context.Background(), time.Minute)
		defer cancel()
		c := WithGroupKey(ctx, "gk")
		c = WithReceiverName(c, "recv")
		c = WithRepeatInterval(c, 4*time.Hour)
		c = WithNow(c, vfNow())
		if _, _, err := stage.Exec(c, promslog.NewNopLogger(), batch...); err != nil {
			vfFail("flush-failed")
		}
	}
	check := func(batch []*alert.Alert, from []int) {
		for i := 0; i < nI; i++ {
			for _, call := range ns[i].calls[from[i]:] {
				if sr[i] {
					vfAssert("send-resolved-integration-lists-exactly-the-batch", len(call) == len(batch))
					for k := 0; k < len(call) && k < len(batch); k++ {
						vfAssert("listed-alert-and-status-are-the-batch's", call[k].inst == batch[k].Labels["instance"] && call[k].resolved == batch[k].Resolved())
					}
				} else {
					k := 0
					for _, b := range batch {
						if b.Resolved() {
							continue
						}
						vfAssert("firing-alert-listed", k < len(call) && call[k].inst == b.Labels["instance"])
						k++
					}
					vfAssert("no-resolved-alert-without-send-resolved", k == len(call))
					for _, s := range call {
						vfAssert("no-resolved-alert-without-send-resolved", !s.resolved)
					}
					vfReach("filtered")
				}
			}
		}
	}
	count := func() []int {
		out := make([]int, nI)
		for i := range ns {
			out[i] = len(ns[i].calls)
		}
		return out
	}

	// flush 1
	n := 2 + vfTier()
	if n > 3 {
		n = 3
	}
	res1 := make([]bool, n)
	var batch1 []*alert.Alert
	anyFiring := false
	for i := 0; i < n-1; i++ {
		res1[i] = vfBool("resolvedAtFlush1")
		anyFiring = anyFiring || !res1[i]
		batch1 = append(batch1, mkAlert(i, res1[i]))
	}
	flush(batch1)
	check(batch1, make([]int, nI))
	after1 := count()
	for i := 0; i < nI; i++ {
		if anyFiring {
			vfAssert("first-flush-with-firing-alerts-notifies", after1[i] == 1)
		} else {
			vfAssert("group-resolved-before-first-flush-sends-nothing", after1[i] == 0)
			vfReach("nothing-sent")
		}
	}
	if !anyFiring {
		return
	}

	// flush 2, one group interval later: the alerts reported resolved are gone, the
	// firing ones are firing or resolved, a new one may have joined (it sorts last)
	vfAdvance(5 * time.Minute)
	var batch2 []*alert.Alert
	nowResolved := false
	for i := 0; i < n-1; i++ {
		if res1[i] {
			continue
		}
		r := vfBool("resolvedAtFlush2")
		nowResolved = nowResolved || r
		batch2 = append(batch2, mkAlert(i, r))
	}
	if vfBool("newAlertJoined") {
		batch2 = append(batch2, mkAlert(n-1, false))
	}
	flush(batch2)
	check(batch2, after1)
	after2 := count()
	for i := 0; i < nI; i++ {
		if sr[i] && nowResolved {
			vfAssert("resolution-reported-at-the-next-flush", after2[i] == after1[i]+1)
			vfReach("resolved-reported")
		}
	}
}
