package notify

import (
	"context"
	"time"

	"github.com/prometheus/client_golang/prometheus"
	"github.com/prometheus/common/model"
	"google.golang.org/protobuf/types/known/timestamppb"

	"github.com/prometheus/alertmanager/alert"
	"github.com/prometheus/alertmanager/eventrecorder"
	"github.com/prometheus/alertmanager/featurecontrol"
	"github.com/prometheus/alertmanager/nflog"
	"github.com/prometheus/alertmanager/nflog/nflogpb"
	"github.com/prometheus/common/promslog"
)

type hRS04 bool

func (r hRS04) SendResolved() bool { return bool(r) }

func hT04(name string) time.Time {
	return time.Unix(int64(vfIntRange(name+".s", 0, 7258118400)), int64(vfIntRange(name+".ns", 0, 999999999))).UTC()
}

// VerifC04_Decision: the dedup decision equals the property's rule for every
// previous entry (or none), every current firing/resolved set over a 3-alert
// universe, every repeat interval and instant.
//
//vf:bounds unwind=16 decisions=200
//vf:expect reach=notify reach=silent reach=no-entry reach=new-cycle reach=all-resolved reach=repeat
func VerifC04_Decision() {
	U := []uint64{11, 22, 33}
	sendResolved := vfBool("sendResolved")
	n := &DedupStage{rs: hRS04(sendResolved)}
	firing := map[uint64]struct{}{}
	resolved := map[uint64]struct{}{}
	for i, h := range U {
		_ = i
		switch vfChoice("cur", 3) {
		case 1:
			firing[h] = struct{}{}
		case 2:
			resolved[h] = struct{}{}
		}
	}
	var entry *nflogpb.Entry
	var eF, eR [3]bool
	ts := hT04("ts")
	if vfBool("hasEntry") {
		entry = &nflogpb.Entry{Timestamp: timestamppb.New(ts)}
		for i, h := range U {
			// an entry never lists one alert as both firing and resolved
			switch vfChoice("prev", 3) {
			case 1:
				eF[i] = true
				entry.FiringAlerts = append(entry.FiringAlerts, h)
			case 2:
				eR[i] = true
				entry.ResolvedAlerts = append(entry.ResolvedAlerts, h)
			}
		}
	}
	repeat := vfSeconds("repeat", 1, 400*86400)
	now := hT04("now")

	reason := n.needsUpdate(entry, firing, resolved, repeat, now)
	got := reason != ReasonDoNotNotify

	// the rule, restated from the property
	nF, neF := len(firing), 0
	newFiring, newResolved := false, false
	for i, h := range U {
		if eF[i] {
			neF++
		}
		if _, f := firing[h]; f && !eF[i] {
			newFiring = true
		}
		if _, r := resolved[h]; r && !eR[i] {
			newResolved = true
		}
	}
	var want bool
	switch {
	case entry == nil:
		want = nF > 0
		vfReach("no-entry")
	case newFiring:
		want = true
		if neF == 0 {
			vfReach("new-cycle")
		}
	case nF == 0:
		want = neF > 0 // the one notification that closes a cycle
		if want {
			vfReach("all-resolved")
		}
	case sendResolved && newResolved:
		want = true
	default:
		// unchanged: only after more than repeat_interval
		vfAssume(!ts.Equal(now.Add(-repeat))) // boundary instant left open
		want = ts.Before(now.Add(-repeat))
		if want {
			vfReach("repeat")
		}
	}
	vfAssert("decision-equals-rule", got == want)
	if got {
		vfReach("notify")
	} else {
		vfReach("silent")
	}
	// a notification with no firing alert only directly after one that listed firing alerts
	if got && nF == 0 {
		vfAssert("empty-notification-only-after-firing-one", entry != nil && neF > 0)
	}
	// reasons that reset receiver data are exactly first notifications
	if reason == ReasonFirstNotification {
		vfAssert("first-means-no-live-cycle", entry == nil || neF == 0)
	}
}

type hNotifier04 struct{ calls int }

func (n *hNotifier04) Notify(ctx context.Context, as ...*alert.Alert) (bool, error) {
	n.calls++
	return false, nil
}

func hAlert04(name string, endsIn time.Duration, now time.Time) *alert.Alert {
	a := &alert.Alert{}
	a.Labels = model.LabelSet{"alertname": model.LabelValue(name)}
	a.StartsAt = now.Add(-time.Minute)
	a.EndsAt = now.Add(endsIn)
	a.UpdatedAt = now
	return a
}

// VerifC04_RepeatWindow: with the real notification log. After a notification at
// instant s an unchanged firing group is not re-notified while now-s <= repeat and is
// re-notified at the first tick with now-s > repeat, across notification-log GC at
// arbitrary instants, as long as retention >= repeat; the tick's Now from the context
// (not the wall clock) is what is compared.
//
//vf:bounds unwind=16 decisions=300
//vf:expect reach=suppressed reach=repeated reach=gc-ran
func VerifC04_RepeatWindow() {
	repeat := vfSeconds("repeat", 1, 30*86400)
	retention := vfSeconds("retention", 1, 120*86400)
	vfAssume(retention >= repeat)
	l, err := nflog.New(nflog.Options{Retention: retention, Metrics: prometheus.NewRegistry()})
	if err != nil {
		panic(err)
	}
	recv := &nflogpb.Receiver{GroupName: "r", Integration: "webhook", Idx: 0}
	dedup := NewDedupStage(hRS04(true), l, recv)
	setn := NewSetNotifiesStage(l, recv)
	t0 := vfNow()
	a := hAlert04("A", 24*400*time.Hour, t0)
	ctx := WithGroupKey(context.Background(), "gk")
	ctx = WithRepeatInterval(ctx, repeat)

	// first flush: notifies and records
	c1 := WithNow(ctx, t0)
	c1, out, err := dedup.Exec(c1, nil, a)
	vfAssert("first-notifies", err == nil && len(out) == 1)
	_, _, err = setn.Exec(c1, nil, out...)
	vfAssert("logged", err == nil)

	// later tick, GC in between at an arbitrary instant
	vfAdvance(vfSeconds("gcAfter", 0, 60*86400))
	if vfBool("gc") {
		_, gerr := l.GC()
		vfAssert("gc-ok", gerr == nil)
		vfReach("gc-ran")
	}
	vfAdvance(vfSeconds("tickAfter", 0, 60*86400))
	tick := vfNow()
	// the wall clock runs ahead of the tick instant (delivery slack): the decision
	// must use the tick carried by the context
	c2 := WithNow(ctx, tick)
	vfAdvance(vfSeconds("slack", 0, 600))
	_, out2, err := dedup.Exec(c2, nil, a)
	vfAssert("exec-ok", err == nil)
	elapsed := tick.Sub(t0)
	vfAssume(elapsed != repeat)
	if elapsed <= repeat {
		vfAssert("no-early-repeat", len(out2) == 0)
		vfReach("suppressed")
	} else {
		vfAssert("repeat-on-time", len(out2) == 1)
		vfReach("repeated")
	}
}

// VerifC04_Classification: the tick carried by the context may lag the wall clock
// at which the flush runs. The flush hands over alerts classified at the wall clock
// (firing ones without an end, resolved ones with an end that has passed), and the
// integration sees them like that. A never-notified group whose alerts are all
// resolved must send nothing, whatever the lag; and what the dedup stage records as
// firing / resolved is what is delivered as firing / resolved.
//
//vf:bounds unwind=12 decisions=200
//vf:expect reach=resolved-only reach=has-firing
func VerifC04_Classification() {
	l, err := nflog.New(nflog.Options{Retention: time.Hour, Metrics: prometheus.NewRegistry()})
	if err != nil {
		panic(err)
	}
	recv := &nflogpb.Receiver{GroupName: "r", Integration: "webhook", Idx: 0}
	dedup := NewDedupStage(hRS04(true), l, recv)
	t0 := vfNow()
	tick := t0.Add(vfSeconds("tickAt", 0, 3600))
	vfAdvance(vfSeconds("tickAt2", 0, 3600) + vfSeconds("lag", 0, 600))
	wall := vfNow()
	vfAssume(!tick.After(wall))
	// alerts as aggrGroup.flush hands them over at the wall clock
	var alerts []*alert.Alert
	nFiring := 0
	for i := 0; i < 2; i++ {
		a := hAlert04([]string{"A", "B"}[i], 0, t0)
		if vfBool("resolved") {
			a.EndsAt = wall.Add(-vfSeconds("endedAgo", 0, 900))
		} else {
			a.EndsAt = time.Time{}
			nFiring++
		}
		alerts = append(alerts, a)
	}
	ctx := WithGroupKey(context.Background(), "gk")
	ctx = WithRepeatInterval(ctx, time.Hour)
	ctx = WithNow(ctx, tick)
	ctx2, out, err := dedup.Exec(ctx, nil, alerts...)
	vfAssert("exec-ok", err == nil)
	firing, _ := FiringAlerts(ctx2)
	resolved, _ := ResolvedAlerts(ctx2)
	vfAssert("recorded-firing-is-delivered-firing", len(firing) == nFiring && len(resolved) == 2-nFiring)
	if nFiring == 0 {
		vfAssert("resolved-only-group-never-notifies", len(out) == 0)
		vfReach("resolved-only")
	} else {
		vfAssert("first-notification-sent", len(out) == 2)
		vfReach("has-firing")
	}
}

// VerifC04_History: 3 (quick) / 4 (thorough) successive flushes of one group over a
// 2-alert universe through the real dedup and record stages and the real notification
// log, the gap between flushes anywhere from a second to beyond the repeat interval
// and a delivery that may fail (then nothing is recorded). At every flush the decision
// equals the rule applied to the last *recorded* notification: notify iff a firing
// alert is not in it, or there are no firing alerts left and it listed some, or a
// newly resolved alert (send_resolved), or nothing changed for longer than the repeat
// interval; never notify a group that has no firing alert and was never told about one.
//
//vf:quick unwind=16 decisions=400 paths=400000
//vf:thorough unwind=16 decisions=600 paths=4000000
//vf:expect reach=notified reach=suppressed reach=repeat reach=failed-delivery-retried reach=cycle-closed
func VerifC04_History() {
	sendResolved := vfBool("sendResolved")
	repeat := vfSeconds("repeat", 60, 4*3600)
	l, err := nflog.New(nflog.Options{Retention: 1000 * time.Hour, Metrics: prometheus.NewRegistry()})
	if err != nil {
		panic(err)
	}
	recv := &nflogpb.Receiver{GroupName: "r", Integration: "webhook", Idx: 0}
	dedup := NewDedupStage(hRS04(sendResolved), l, recv)
	setn := NewSetNotifiesStage(l, recv)
	names := []string{"A", "B"}
	ctx0 := WithGroupKey(context.Background(), "gk")
	ctx0 = WithRepeatInterval(ctx0, repeat)

	// reference: the last recorded notification
	have := false
	var lastF, lastR [2]bool
	var lastAt time.Time
	steps := 3 + vfTier()
	for s := 0; s < steps; s++ {
		now := vfNow()
		var alerts []*alert.Alert
		var curF, curR [2]bool
		nF := 0
		for i := range names {
			switch vfChoice("state", 3) {
			case 1:
				a := hAlert04(names[i], 0, now)
				a.EndsAt = time.Time{}
				alerts = append(alerts, a)
				curF[i] = true
				nF++
			case 2:
				alerts = append(alerts, hAlert04(names[i], -time.Second, now))
				curR[i] = true
			}
		}
		if len(alerts) == 0 {
			vfAdvance(vfSeconds("gap", 1, 5*3600))
			continue // an empty group is not flushed
		}
		c, out, err := dedup.Exec(WithNow(ctx0, now), nil, alerts...)
		vfAssert("dedup-ok", err == nil)
		got := len(out) > 0

		newFiring, newResolved, lastNF := false, false, 0
		for i := range names {
			if lastF[i] {
				lastNF++
			}
			if curF[i] && !(have && lastF[i]) {
				newFiring = true
			}
			if curR[i] && !(have && lastR[i]) {
				newResolved = true
			}
		}
		var want bool
		switch {
		case !have:
			want = nF > 0
		case newFiring:
			want = true
		case nF == 0:
			want = lastNF > 0
			if want {
				vfReach("cycle-closed")
			}
		case sendResolved && newResolved:
			want = true
		default:
			vfAssume(!lastAt.Equal(now.Add(-repeat)))
			want = lastAt.Before(now.Add(-repeat))
			if want {
				vfReach("repeat")
			}
		}
		vfAssert("decision-equals-rule-on-last-recorded-notification", got == want)
		if got {
			vfAssert("whole-batch-goes-out", len(out) == len(alerts))
			vfReach("notified")
			if vfBool("deliveryOK") {
				_, _, err = setn.Exec(c, nil, out...)
				vfAssert("recorded", err == nil)
				have, lastF, lastR, lastAt = true, curF, curR, now
			} else if s > 0 {
				vfReach("failed-delivery-retried")
			}
		} else {
			vfReach("suppressed")
		}
		vfAdvance(vfSeconds("gap", 1, 5*3600))
	}
}

type hSlow04 struct {
	takes time.Duration
	calls int
}

// Notify delivers successfully after `takes`, whether or not the flush's context has
// expired in the meantime (a receiver that answers late).
func (n *hSlow04) Notify(ctx context.Context, as ...*alert.Alert) (bool, error) {
	n.calls++
	time.Sleep(n.takes)
	return false, nil
}

// VerifC04_SlowDelivery: a delivery that succeeds, possibly only after the flush's
// deadline has passed (the receiver answered late, or the group was cancelled by a
// reload while the request was in flight). Whatever the timing, a notification the
// receiver accepted is recorded, so the next flush of the unchanged group stays silent
// instead of notifying again long before repeat_interval.
//
//vf:quick unwind=16 decisions=300 goroutines=6 preempt=0 paths=300000
//vf:thorough unwind=16 decisions=400 goroutines=6 preempt=1 paths=3000000
//vf:expect reach=on-time reach=late
func VerifC04_SlowDelivery() {
	l, err := nflog.New(nflog.Options{Retention: 100 * time.Hour, Metrics: prometheus.NewRegistry()})
	if err != nil {
		panic(err)
	}
	n := &hSlow04{takes: vfSeconds("deliveryTakes", 0, 120)}
	m := NewMetrics(prometheus.NewRegistry(), featurecontrol.NoopFlags{})
	stage := createReceiverStage("r", []Integration{NewIntegration(n, hRS04(true), "webhook", 0, "r")},
		func() time.Duration { return 0 }, l, m, eventrecorder.Recorder{})
	t0 := vfNow()
	a := hAlert04("A", 1000*time.Hour, t0)
	deadline := time.Minute
	flush := func() error {
		ctx, cancel := context.WithTimeout(context.Background(), deadline)
		defer cancel()
		ctx = WithGroupKey(ctx, "gk")
		ctx = WithReceiverName(ctx, "r")
		ctx = WithRepeatInterval(ctx, 4*time.Hour)
		ctx = WithNow(ctx, vfNow())
		_, _, err := stage.Exec(ctx, promslog.NewNopLogger(), a)
		return err
	}
	vfAssume(n.takes != deadline)
	flush()
	vfAssert("delivered-once", n.calls == 1)
	if n.takes < deadline {
		vfReach("on-time")
	} else {
		vfReach("late")
	}
	// next flush one group interval after the first tick
	if d := t0.Add(5 * time.Minute).Sub(vfNow()); d > 0 {
		vfAdvance(d)
	}
	vfAssert("second-flush-ok", flush() == nil)
	vfAssert("accepted-notification-is-not-repeated-at-the-next-flush", n.calls == 1)
}
