package dispatch

import (
	"context"
	"errors"
	"time"

	"github.com/prometheus/client_golang/prometheus"
	"github.com/prometheus/common/model"
	"github.com/prometheus/common/promslog"

	"github.com/prometheus/alertmanager/alert"
	"github.com/prometheus/alertmanager/config"
	"github.com/prometheus/alertmanager/eventrecorder"
	"github.com/prometheus/alertmanager/featurecontrol"
	"github.com/prometheus/alertmanager/inhibit"
	"github.com/prometheus/alertmanager/marker"
	"github.com/prometheus/alertmanager/nflog"
	"github.com/prometheus/alertmanager/notify"
	"github.com/prometheus/alertmanager/provider/mem"
	"github.com/prometheus/alertmanager/silence"
	"github.com/prometheus/alertmanager/timeinterval"
	"github.com/prometheus/alertmanager/types"
)

type hRSe04 bool

func (r hRSe04) SendResolved() bool { return bool(r) }

// hRecvE04 is the receiver at the end of the real pipeline: per delivery attempt it
// accepts, fails recoverably or rejects, as scripted; it records when it was sent what.
type hRecvE04 struct {
	script []int
	at     []time.Time
	firing []int
	okAt   []time.Time
}

func (n *hRecvE04) Notify(ctx context.Context, as ...*alert.Alert) (bool, error) {
	i := len(n.at)
	n.at = append(n.at, time.Now())
	f := 0
	for _, a := range as {
		if !a.Resolved() {
			f++
		}
	}
	n.firing = append(n.firing, f)
	o := 0
	if i < len(n.script) {
		o = n.script[i]
	}
	switch o {
	case 1:
		return true, errors.New("503 try again")
	case 2:
		return false, errors.New("400 rejected")
	}
	n.okAt = append(n.okAt, time.Now())
	return false, nil
}

// VerifC04_EndToEnd: the repeat interval through the assembled path (real provider,
// dispatcher started with Run, real pipeline, real notification log; one fixed fair
// schedule, group_interval one minute). An unchanged firing group with a symbolic
// repeat_interval of 1 s .. 10 min (quick: .. 4 min) is flushed every minute for 12
// (quick: 6) minutes, with notification-log GC at a symbolic moment. It is notified at
// the first flush, and afterwards exactly at the first tick that lies more than
// repeat_interval after the previous notification, never earlier and never later.
//
//vf:quick unwind=24 decisions=900 goroutines=64 preempt=0 sched=fifo timerfires=160 paths=400000 steps=40000000
//vf:thorough unwind=24 decisions=1400 goroutines=128 preempt=0 sched=fifo timerfires=400 paths=4000000 steps=100000000
//vf:expect reach=repeated reach=suppressed
func VerifC04_EndToEnd() {
	ctx, cancel := context.WithCancel(context.Background())
	defer cancel()
	logger := promslog.NewNopLogger()
	alerts, err := mem.NewAlerts(ctx, 100000*time.Hour, 0, nil, logger, eventrecorder.Recorder{}, prometheus.NewRegistry(), nil)
	if err != nil {
		panic(err)
	}
	sils, err := silence.New(silence.Options{Retention: time.Hour, Metrics: prometheus.NewRegistry()})
	if err != nil {
		panic(err)
	}
	nlog, err := nflog.New(nflog.Options{Retention: 100 * time.Hour, Metrics: prometheus.NewRegistry()})
	if err != nil {
		panic(err)
	}
	gm := marker.NewGroupMarker()
	recv := &hRecvE04{}
	pipeline := notify.NewPipelineBuilder(prometheus.NewRegistry(), featurecontrol.NoopFlags{}, eventrecorder.Recorder{}).New(
		map[string][]notify.Integration{"r": {notify.NewIntegration(recv, hRSe04(true), "webhook", 0, "r")}},
		func() time.Duration { return 0 },
		inhibit.NewInhibitor(alerts, nil, logger, eventrecorder.Recorder{}),
		silence.NewSilencer(sils, logger, eventrecorder.Recorder{}),
		timeinterval.NewIntervener(nil), gm, nlog, nil)
	giD := time.Minute
	minutes := 6 + 6*vfTier()
	riD := vfSeconds("repeatInterval", 1, 240+360*vfTier())
	gw, gi, ri := model.Duration(0), model.Duration(giD), model.Duration(riD)
	route := NewRoute(&config.Route{Receiver: "r", GroupBy: []model.LabelName{"alertname"}, GroupWait: &gw, GroupInterval: &gi, RepeatInterval: &ri}, nil)
	d := NewDispatcher(alerts, route, pipeline, gm, func(d time.Duration) time.Duration { return d },
		100000*time.Hour, nil, logger, eventrecorder.Recorder{}, nil, nil)
	vfGo("dispatcher", func() { d.Run(time.Now()) })
	defer func() {
		d.state.Store(DispatcherStateStopped)
		cancel()
		d.cancel()
		if vfNative() {
			d.finished.Wait()
		}
	}()
	vfAdvance(5 * time.Second)
	t0 := vfNow()
	a := &types.Alert{}
	a.Labels = model.LabelSet{"alertname": "A", "job": "j"}
	a.StartsAt, a.UpdatedAt = t0, t0
	a.EndsAt = t0.Add(1000 * time.Hour)
	if alerts.Put(ctx, a) != nil {
		vfFail("alert-not-accepted")
	}
	gcAfter := vfSeconds("gcAfter", 1, 60*minutes)
	vfAdvance(gcAfter)
	if _, err := nlog.GC(); err != nil {
		vfFail("gc-failed")
	}
	vfAdvance(time.Duration(minutes)*giD + 30*time.Second - gcAfter)

	// reference: notified at tick 0, then at the first tick more than ri after the last one
	sent := map[int]bool{}
	for _, at := range recv.at {
		k := int(at.Sub(t0) / giD)
		vfAssert("notifications-only-at-flush-ticks", at.Equal(t0.Add(time.Duration(k)*giD)))
		sent[k] = true
	}
	last := 0
	vfAssert("first-flush-notifies", sent[0])
	for k := 1; k <= minutes; k++ {
		elapsed := time.Duration(k-last) * giD
		vfAssume(elapsed != riD) // the instant elapsed == repeat_interval is left open
		if elapsed > riD {
			vfAssert("repeated-at-the-first-tick-after-the-interval", sent[k])
			last = k
			vfReach("repeated")
		} else {
			vfAssert("not-repeated-within-the-interval", !sent[k])
			vfReach("suppressed")
		}
	}
}
