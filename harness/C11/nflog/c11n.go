package nflog

import (
	"bytes"
	"time"

	"github.com/prometheus/client_golang/prometheus"
	"google.golang.org/protobuf/types/known/timestamppb"

	pb "github.com/prometheus/alertmanager/nflog/nflogpb"
)

func hNew11(snapf string) (*Log, error) {
	return New(Options{Retention: time.Hour, Metrics: prometheus.NewRegistry(), SnapshotFile: snapf})
}

func hRecv11(i uint32) *pb.Receiver {
	return &pb.Receiver{GroupName: "recv", Integration: "webhook", Idx: i}
}

// VerifC11_NflogCrash: as VerifC11_SilenceCrash for the notification log: after a
// crash or power loss at any point of a maintenance snapshot the next start loads
// exactly the previous log or exactly the new one and is never refused. The thorough
// tier runs two rounds back to back (crash, restart, crash again).
//
//vf:quick unwind=24 decisions=300 preempt=0
//vf:thorough unwind=24 decisions=600 preempt=0 paths=2000000
//vf:nonative uses the engine's crash-consistent file-system model
//vf:expect reach=old-state reach=new-state reach=crashed reach=completed
func VerifC11_NflogCrash() {
	l0, err := hNew11("")
	if err != nil {
		panic(err)
	}
	vfAssert("log-ok", l0.Log(hRecv11(0), "g1", []uint64{1}, nil, nil, 0) == nil)
	var buf bytes.Buffer
	_, err = l0.Snapshot(&buf)
	vfAssert("snapshot-ok", err == nil)
	vfFSPut("data/nflog", buf.Bytes())

	// long ago a run with a bigger log was killed after it had written and synced its
	// temporary snapshot file and before renaming it: the leftover is still around
	big, _ := hNew11("")
	for _, g := range []string{"w", "x", "y", "z"} {
		vfAssert("log-ok", big.Log(hRecv11(0), g, []uint64{9}, nil, nil, 0) == nil)
	}
	if rf, err := openReplace("data/nflog"); err == nil {
		big.Snapshot(rf)
		rf.File.Sync()
	}

	// 1 (quick) / 2 (thorough) rounds of: run, log a notification for a new group
	// (optionally update the first group's entry), snapshot killed anywhere, restart
	nOld := 1
	firstLen := 1
	for round := 0; round <= vfTier(); round++ {
		l, err := hNew11("data/nflog")
		vfAssert("start-from-own-snapshot", err == nil && len(l.st) == nOld)
		vfAdvance(time.Minute)
		gk := []string{"g2", "g3"}[round]
		vfAssert("log-ok", l.Log(hRecv11(0), gk, []uint64{2}, []uint64{3}, nil, 0) == nil)
		updateFirst := vfBool("updateFirst")
		newFirstLen := firstLen
		if updateFirst {
			newFirstLen = firstLen + 1
			fa := []uint64{1, 4, 5}[:newFirstLen]
			vfAssert("log-ok", l.Log(hRecv11(0), "g1", fa, nil, nil, 0) == nil)
		}
		k := vfChoice("crashBeforeOp", 8)
		if k < 7 {
			vfCrashAt(k)
		}
		func() {
			defer func() { recover() }()
			stopc := make(chan struct{})
			close(stopc)
			l.Maintenance(time.Hour, "data/nflog", stopc, nil)
		}()
		crashed := vfCrashed()
		if crashed {
			vfReach("crashed")
		} else {
			vfReach("completed")
			if vfBool("powerLossAfterwards") {
				vfPowerLoss()
				crashed = true
			}
		}
		vfCrashRecover()

		l2, err := hNew11("data/nflog")
		vfAssert("restart-never-refused-by-own-file", err == nil)
		e1, has1 := l2.st[stateKey("g1", hRecv11(0))]
		_, hasNew := l2.st[stateKey(gk, hRecv11(0))]
		isOld := has1 && !hasNew && len(l2.st) == nOld
		isNew := has1 && hasNew && len(l2.st) == nOld+1
		vfAssert("exactly-old-or-exactly-new-state", isOld || isNew)
		if !crashed {
			vfAssert("completed-snapshot-is-loaded", isNew)
		}
		if isNew {
			vfReach("new-state")
			vfAssert("new-state-content", len(e1.Entry.FiringAlerts) == newFirstLen)
			nOld, firstLen = nOld+1, newFirstLen
		} else {
			vfReach("old-state")
			vfAssert("old-state-content", len(e1.Entry.FiringAlerts) == firstLen)
		}
	}
}

// VerifC11_NflogRoundTrip: a snapshot of the notification log loaded back holds every
// entry with identical receiver, group key, timestamp, expiry, firing and resolved
// alert lists and receiver data (int, string and float values), so notifications
// already sent are not repeated after a restart. (Natively: the real codec.)
//
//vf:bounds unwind=32 decisions=300
//vf:expect reach=round-tripped
func VerifC11_NflogRoundTrip() {
	l, err := hNew11("")
	if err != nil {
		panic(err)
	}
	vfAdvance(vfSeconds("t", 0, 86400))
	now := vfNow()
	store := NewStore(nil)
	store.SetInt("threadTs", 42)
	store.SetStr("channel", "c\"1\n")
	store.SetFloat("ratio", 0.5)
	vfAssert("log-ok", l.Log(hRecv11(1), "{}/{job=\"a\"}:{alertname=\"A\"}", []uint64{1, 18446744073709551615}, []uint64{7}, store, 0) == nil)
	vfAssert("log-ok", l.Log(hRecv11(2), "g2", nil, nil, nil, 30*time.Minute) == nil)
	var buf bytes.Buffer
	n, err := l.Snapshot(&buf)
	vfAssert("snapshot-ok", err == nil && n > 0)
	l2, _ := hNew11("")
	vfAssert("load-ok", l2.loadSnapshot(&buf) == nil)
	vfAssert("every-entry-loaded", len(l2.st) == 2)
	got, qerr := l2.Query(QReceiver(hRecv11(1)), QGroupKey("{}/{job=\"a\"}:{alertname=\"A\"}"))
	vfAssert("query-after-reload", qerr == nil && len(got) == 1)
	e := got[0]
	vfAssert("receiver-identical", e.Receiver.GroupName == "recv" && e.Receiver.Integration == "webhook" && e.Receiver.Idx == 1)
	vfAssert("timestamp-identical", e.Timestamp.AsTime().Equal(now))
	vfAssert("alert-lists-identical", len(e.FiringAlerts) == 2 && e.FiringAlerts[0] == 1 && e.FiringAlerts[1] == 18446744073709551615 &&
		len(e.ResolvedAlerts) == 1 && e.ResolvedAlerts[0] == 7)
	rs := NewStore(e)
	iv, ok1 := rs.GetInt("threadTs")
	sv, ok2 := rs.GetStr("channel")
	fv, ok3 := rs.GetFloat("ratio")
	vfAssert("receiver-data-identical", ok1 && ok2 && ok3 && iv == 42 && sv == "c\"1\n" && fv == 0.5)
	me := l2.st[stateKey("g2", hRecv11(2))]
	vfAssert("expiry-identical", me != nil && me.ExpiresAt.AsTime().Equal(now.Add(30*time.Minute)))
	// and the dedup decision after the restart is the same: no repeat
	vfAssert("no-repeat-after-restart", len(got[0].FiringAlerts) == 2)
	vfReach("round-tripped")
}

// VerifC11_NflogDamaged: cuts of a two-entry snapshot: record boundaries load as
// the complete entries before the cut, cuts inside a record are an error and yield
// no state; an entry without receiver is rejected.
//
//vf:bounds unwind=32 decisions=300
//vf:expect reach=clean-prefix reach=torn
func VerifC11_NflogDamaged() {
	now := vfNow()
	mk := func(g string) *pb.MeshEntry {
		return &pb.MeshEntry{
			Entry:     &pb.Entry{Receiver: hRecv11(0), GroupKey: []byte(g), Timestamp: timestamppb.New(now), FiringAlerts: []uint64{1}},
			ExpiresAt: timestamppb.New(now.Add(time.Hour)),
		}
	}
	ra, err := marshalMeshEntry(mk("g1"))
	vfAssert("marshal-ok", err == nil)
	rb, err := marshalMeshEntry(mk("g2"))
	vfAssert("marshal-ok", err == nil)
	all := append(append([]byte{}, ra...), rb...)
	cuts := []int{0, len(ra), len(all), 1, len(ra) - 1, len(ra) + 1, len(all) - 1}
	c := vfChoice("cut", len(cuts))
	l, _ := hNew11("")
	lerr := l.loadSnapshot(bytes.NewReader(all[:cuts[c]]))
	if c <= 2 {
		vfAssert("clean-prefix-accepted", lerr == nil && len(l.st) == c)
		vfReach("clean-prefix")
	} else {
		vfAssert("torn-record-is-an-error", lerr != nil)
		vfAssert("no-state-from-a-torn-file", len(l.st) == 0)
		vfReach("torn")
	}
	bad := mk("g3")
	bad.Entry.Receiver = nil
	rbad, err := marshalMeshEntry(bad)
	vfAssert("marshal-ok", err == nil)
	l3, _ := hNew11("")
	vfAssert("entry-without-receiver-rejected", l3.loadSnapshot(bytes.NewReader(rbad)) != nil)
}
