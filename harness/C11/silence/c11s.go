package silence

import (
	"bytes"
	"context"
	"time"

	"github.com/prometheus/client_golang/prometheus"
	"google.golang.org/protobuf/types/known/timestamppb"

	pb "github.com/prometheus/alertmanager/silence/silencepb"
)

func hNew11(snapf string) (*Silences, error) {
	return New(Options{Retention: time.Hour, Metrics: prometheus.NewRegistry(), SnapshotFile: snapf})
}

func hSil11(val string, now time.Time) *pb.Silence {
	return &pb.Silence{
		MatcherSets: []*pb.MatcherSet{{Matchers: []*pb.Matcher{{Type: pb.Matcher_EQUAL, Name: "job", Pattern: val}}}},
		StartsAt:    timestamppb.New(now),
		EndsAt:      timestamppb.New(now.Add(time.Hour)),
		Comment:     "c-" + val,
	}
}

// VerifC11_SilenceCrash: a maintenance / shutdown snapshot of the silences is cut at
// every point between two file-system operations (create, write, sync, close, rename);
// afterwards every file keeps its synced content plus an arbitrary prefix of unsynced
// data (possibly ending in a torn record) and an unsynced rename may be lost. The next
// start loads without error exactly the previous snapshot's silences or exactly the
// new ones, never a mixture, and the temporary file never has the snapshot's name.
// The thorough tier runs two such rounds back to back (crash, restart, crash again).
//
//vf:quick unwind=24 decisions=300 preempt=0
//vf:thorough unwind=24 decisions=600 preempt=0 paths=2000000
//vf:nonative uses the engine's crash-consistent file-system model
//vf:expect reach=old-state reach=new-state reach=crashed reach=completed
func VerifC11_SilenceCrash() {
	ctx := context.Background()
	now := vfNow()
	// the previous, complete snapshot: silence A
	s0, err := hNew11("")
	if err != nil {
		panic(err)
	}
	a := hSil11("a", now)
	vfAssert("set-ok", s0.Set(ctx, a) == nil)
	var buf bytes.Buffer
	_, err = s0.Snapshot(&buf)
	vfAssert("snapshot-ok", err == nil)
	vfFSPut("data/silences", buf.Bytes())

	// long ago a run with a bigger store was killed after it had written and synced its
	// temporary snapshot file and before renaming it: the leftover is still around
	big, _ := hNew11("")
	for _, v := range []string{"w", "x", "y", "z"} {
		vfAssert("set-ok", big.Set(ctx, hSil11(v, now)) == nil)
	}
	if rf, err := openReplace("data/silences"); err == nil {
		big.Snapshot(rf)
		rf.File.Sync()
	}

	// 1 (quick) / 2 (thorough) rounds: the running instance was loaded from the file,
	// one more silence is created (optionally the oldest expired), one maintenance run
	// (the shutdown snapshot) is killed before its k-th file-system operation or runs to
	// completion, the machine possibly loses power, the instance restarts. A second
	// round starts from whatever the first left behind (stale temporary file included).
	old := map[string]bool{a.Id: true}
	expired := map[string]bool{}
	for round := 0; round <= vfTier(); round++ {
		s, err := hNew11("data/silences")
		vfAssert("start-from-own-snapshot", err == nil && len(s.st) == len(old))
		vfAdvance(time.Minute)
		b := hSil11([]string{"b", "c"}[round], vfNow())
		vfAssert("set-ok", s.Set(ctx, b) == nil)
		expireA := round == 0 && vfBool("expireA") // (the second round only adds a silence)
		if expireA {
			vfAssert("expire-ok", s.Expire(ctx, a.Id) == nil)
		}
		k := vfChoice("crashBeforeOp", 8) // 7 = runs to completion
		if k < 7 {
			vfCrashAt(k)
		}
		func() {
			defer func() { recover() }()
			stopc := make(chan struct{})
			close(stopc)
			s.Maintenance(time.Hour, "data/silences", stopc, nil)
		}()
		crashed := vfCrashed()
		if crashed {
			vfReach("crashed")
		} else {
			vfReach("completed")
			// the process finished; the machine may still lose power right afterwards
			if vfBool("powerLossAfterwards") {
				vfPowerLoss()
				crashed = true
			}
		}
		vfCrashRecover()

		// restart
		s2, err := hNew11("data/silences")
		vfAssert("restart-never-refused-by-own-file", err == nil)
		_, hasB := s2.st[b.Id]
		isOld, isNew := !hasB && len(s2.st) == len(old), hasB && len(s2.st) == len(old)+1
		for id := range old {
			_, has := s2.st[id]
			isOld, isNew = isOld && has, isNew && has
		}
		vfAssert("exactly-old-or-exactly-new-state", isOld || isNew)
		if !crashed {
			vfAssert("completed-snapshot-is-loaded", isNew)
		}
		gotA := s2.st[a.Id].Silence
		if isNew {
			vfReach("new-state")
			if expireA {
				expired[a.Id] = true
			}
			old[b.Id] = true
			vfAssert("indexes-rebuilt", len(s2.mi) == len(old) && len(s2.vi) == len(old))
		} else {
			vfReach("old-state")
		}
		// silence A's content is the one of the state that was loaded
		vfAssert("content-of-the-loaded-state", gotA.EndsAt.AsTime().Equal(a.EndsAt.AsTime()) == !expired[a.Id])
		vfAssert("target-always-present", vfFSExists("data/silences"))
	}
}

// VerifC11_SilenceRoundTrip: writing a snapshot and loading it back reproduces every
// silence with identical content: ids, several OR-ed matcher sets with all matcher
// types, times, comment, creator, annotations; a silence in the old single-list
// format comes back with its matchers as the first set; legacy comment lists are
// upgraded; marshalling does not change the stored silence; indexes are rebuilt.
// (Natively this runs the real protobuf codec.)
//
//vf:bounds unwind=32 decisions=300
//vf:expect reach=round-tripped
func VerifC11_SilenceRoundTrip() {
	now := vfNow()
	s, err := hNew11("")
	if err != nil {
		panic(err)
	}
	m := func(t pb.Matcher_Type, n, v string) *pb.Matcher { return &pb.Matcher{Type: t, Name: n, Pattern: v} }
	full := &pb.Silence{
		Id: "id-full",
		MatcherSets: []*pb.MatcherSet{
			{Matchers: []*pb.Matcher{m(pb.Matcher_EQUAL, "job", "a"), m(pb.Matcher_NOT_REGEXP, "env", "d.*")}},
			{Matchers: []*pb.Matcher{m(pb.Matcher_REGEXP, "tëam", "ü|x"), m(pb.Matcher_NOT_EQUAL, "zone", "")}},
		},
		StartsAt:    timestamppb.New(now.Add(vfSeconds("start", 0, 3600))),
		EndsAt:      timestamppb.New(now.Add(2*time.Hour + vfSeconds("len", 0, 3600))),
		UpdatedAt:   timestamppb.New(now),
		Comment:     "a \"quoted\" comment\n",
		CreatedBy:   "me",
		Annotations: map[string]string{"ticket": "T-1"},
	}
	old := &pb.Silence{ // as written by an older version: single matcher list, comment list
		Id:        "id-old",
		Matchers:  []*pb.Matcher{m(pb.Matcher_EQUAL, "job", "legacy")},
		StartsAt:  timestamppb.New(now),
		EndsAt:    timestamppb.New(now.Add(time.Hour)),
		UpdatedAt: timestamppb.New(now),
		Comments:  []*pb.Comment{{Author: "old-author", Comment: "old-comment"}},
	}
	s.st["id-full"] = &pb.MeshSilence{Silence: full, ExpiresAt: timestamppb.New(now.Add(5 * time.Hour))}
	s.st["id-old"] = &pb.MeshSilence{Silence: old, ExpiresAt: timestamppb.New(now.Add(3 * time.Hour))}
	var buf bytes.Buffer
	n, err := s.Snapshot(&buf)
	vfAssert("snapshot-ok", err == nil && n > 0)
	vfAssert("marshalling-does-not-mutate", len(full.Matchers) == 0 && len(full.MatcherSets) == 2)

	s2, _ := hNew11("")
	vfAssert("load-ok", s2.loadSnapshot(&buf) == nil)
	vfAssert("every-silence-loaded", len(s2.st) == 2 && len(s2.mi) == 2 && len(s2.vi) == 2)
	g := s2.st["id-full"]
	vfAssert("full-present", g != nil)
	gs := g.Silence
	vfAssert("times-identical", gs.StartsAt.AsTime().Equal(full.StartsAt.AsTime()) && gs.EndsAt.AsTime().Equal(full.EndsAt.AsTime()) &&
		gs.UpdatedAt.AsTime().Equal(full.UpdatedAt.AsTime()) && g.ExpiresAt.AsTime().Equal(now.Add(5*time.Hour)))
	vfAssert("text-identical", gs.Comment == full.Comment && gs.CreatedBy == "me" && gs.Annotations["ticket"] == "T-1" && len(gs.Annotations) == 1)
	vfAssert("matcher-sets-identical", len(gs.MatcherSets) == 2 && len(gs.MatcherSets[0].Matchers) == 2 && len(gs.MatcherSets[1].Matchers) == 2 && len(gs.Matchers) == 0)
	for i, ms := range full.MatcherSets {
		for j, want := range ms.Matchers {
			got := gs.MatcherSets[i].Matchers[j]
			vfAssert("matcher-identical", got.Type == want.Type && got.Name == want.Name && got.Pattern == want.Pattern)
		}
	}
	o := s2.st["id-old"]
	vfAssert("old-present", o != nil)
	os := o.Silence
	vfAssert("old-format-matchers-become-first-set", len(os.MatcherSets) == 1 && len(os.MatcherSets[0].Matchers) == 1 &&
		os.MatcherSets[0].Matchers[0].Pattern == "legacy" && len(os.Matchers) == 0)
	vfAssert("legacy-comments-upgraded", os.Comment == "old-comment" && os.CreatedBy == "old-author" && len(os.Comments) == 0)
	vfReach("round-tripped")
}

// VerifC11_SilenceDamaged: a snapshot of two silences cut at the start, at the record
// boundary, inside a record or one byte before the end: the loader accepts exactly the
// cuts at record boundaries (yielding the complete records before the cut) and returns
// an error, never a state, for every cut inside a record.
//
//vf:bounds unwind=32 decisions=300
//vf:expect reach=clean-prefix reach=torn
func VerifC11_SilenceDamaged() {
	now := vfNow()
	sa, sb := hSil11("a", now), hSil11("b", now)
	sa.Id, sb.Id = "id-a", "id-b"
	ra, err := marshalMeshSilence(&pb.MeshSilence{Silence: sa, ExpiresAt: timestamppb.New(now.Add(time.Hour))})
	vfAssert("marshal-ok", err == nil)
	rb, err := marshalMeshSilence(&pb.MeshSilence{Silence: sb, ExpiresAt: timestamppb.New(now.Add(time.Hour))})
	vfAssert("marshal-ok", err == nil)
	all := append(append([]byte{}, ra...), rb...)
	cuts := []int{0, len(ra), len(all), 1, len(ra) - 1, len(ra) + 1, len(all) - 1}
	c := vfChoice("cut", len(cuts))
	cut := cuts[c]
	s, _ := hNew11("")
	lerr := s.loadSnapshot(bytes.NewReader(all[:cut]))
	if c <= 2 {
		vfAssert("clean-prefix-accepted", lerr == nil && len(s.st) == c)
		vfReach("clean-prefix")
	} else {
		vfAssert("torn-record-is-an-error", lerr != nil)
		vfAssert("no-state-from-a-torn-file", len(s.st) == 0)
		vfReach("torn")
	}
}

// VerifC11_SilenceSecondSnapshot: one process, two snapshots. After a first completed
// maintenance snapshot the stored silences are only changed in place (one is expired,
// or its end is moved) and optionally a new one is added; the second (shutdown)
// snapshot runs to completion or is killed at any file-system operation. The next start
// loads exactly the state of the first or of the second snapshot, and after a clean
// shutdown it is the second one: an in-place change is not forgotten because "nothing
// new was added".
//
//vf:bounds unwind=24 decisions=400 preempt=0 goroutines=4
//vf:nonative uses the engine's crash-consistent file-system model
//vf:expect reach=clean-shutdown reach=crashed
func VerifC11_SilenceSecondSnapshot() {
	ctx := context.Background()
	now := vfNow()
	s, err := hNew11("data/silences")
	vfAssert("start-empty", err == nil)
	a := hSil11("a", now)
	vfAssert("set-ok", s.Set(ctx, a) == nil)
	// the maintenance loop of the running process: a periodic snapshot every 10 minutes
	// and a last one at shutdown
	stopc := make(chan struct{})
	done := make(chan struct{})
	vfGo("maintenance", func() {
		defer func() { recover(); close(done) }()
		s.Maintenance(10*time.Minute, "data/silences", stopc, nil)
	})
	vfAdvance(10*time.Minute + time.Second) // first snapshot, complete
	vfFSSettle()                            // ... and on the disk by now
	endBefore := s.st[a.Id].Silence.EndsAt.AsTime()
	switch vfChoice("inPlaceChange", 2) {
	case 0:
		vfAssert("expire-ok", s.Expire(ctx, a.Id) == nil)
	case 1:
		e := &pb.Silence{Id: a.Id, MatcherSets: a.MatcherSets, StartsAt: a.StartsAt, EndsAt: timestamppb.New(now.Add(3 * time.Hour)), Comment: "longer"}
		vfAssert("edit-ok", s.Set(ctx, e) == nil && e.Id == a.Id)
	}
	endAfter := s.st[a.Id].Silence.EndsAt.AsTime()
	added := vfBool("alsoAddsOne")
	if added {
		vfAssert("set-ok", s.Set(ctx, hSil11("b", vfNow())) == nil)
	}
	k := vfChoice("crashBeforeOp", 8) // 7 = runs to completion
	if k < 7 {
		vfCrashAt(k)
	}
	close(stopc) // shutdown: the last snapshot
	<-done
	crashed := vfCrashed()
	if !crashed && vfBool("powerLossAfterwards") {
		vfPowerLoss()
		crashed = true
	}
	vfCrashRecover()
	s2, err := hNew11("data/silences")
	vfAssert("restart-never-refused-by-own-file", err == nil)
	got, ok := s2.st[a.Id]
	vfAssert("silence-a-survives", ok)
	if !ok {
		return
	}
	isFirst := got.Silence.EndsAt.AsTime().Equal(endBefore) && len(s2.st) == 1
	wantLen := 1
	if added {
		wantLen = 2
	}
	isSecond := got.Silence.EndsAt.AsTime().Equal(endAfter) && len(s2.st) == wantLen
	vfAssert("exactly-the-first-or-the-second-snapshot", isFirst || isSecond)
	if !crashed {
		vfAssert("clean-shutdown-keeps-the-in-place-change", isSecond)
		vfReach("clean-shutdown")
	} else {
		vfReach("crashed")
	}
}
