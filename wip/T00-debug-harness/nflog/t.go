package nflog

import "time"

func VerifT00_Clock() {
	d := vfDuration("advance", 0, 30000*24*time.Hour)
	vfAdvance(d)
	now := vfNow()
	vfObserve("now", now)
	x := time.Unix(int64(vfIntRange("x.s", 0, 7258118400)), int64(vfIntRange("x.ns", 0, 999999999))).UTC()
	vfObserve("x", x)
	if x.After(now) {
		vfReach("after")
	} else {
		vfReach("notafter")
	}
	vfObserve("sub", now.Sub(x))
	vfObserve("add", x.Add(d))
}
