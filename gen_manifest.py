#!/usr/bin/env python3
"""Generates MANIFEST.json from the claims table below."""
import json

BASELINE_OFF = "for m in $(cat /w/out/gomods.txt); do MF=$(cd /repo/$m && . /w/out/goenv.sh && gomodflag); (cd /repo/$m && go test $MF -json -vet=off -count=1 -timeout 25m ./...); done"

TRUSTED = ("Trusted base: the gosmt SSA interpreter and its stub catalogue (DESIGN.md section 3.5: virtual clock, sync/atomic models, "
           "context, no-op logging/metrics/tracing, opaque round-tripping protobuf codec, native regexp on concrete strings), go/ssa, z3 4.8.12. "
           "Sampled paths and every counterexample are re-run natively against the real package (go test -overlay); any disagreement fails the check.")

claims = {}   # id -> dict(text=..., note=..., design=...)
na = {}       # id -> reason

def claim(pid, text, note, design):
    claims[pid] = dict(text=text, note=note, design=design)

claim("C10",
      "Bounded symbolic model checking of the real nflog code: the merge step from an arbitrary pre-state (inductive), Log/Query/GC laws and "
      "delivery-order convergence are each decided by SMT for all instants/flags within the stated bounds; an unsat answer covers every input on that path.",
      "Bounds: <=3 entries, 2 keys, <=4 operations, instants 1970..2200. Codec opaque. " + TRUSTED, "4 C10")

ALL = ["C%02d" % i for i in range(1, 21)]
for p in ALL:
    if p not in claims and p not in na:
        na[p] = "check not yet built in this session (solver-based harness planned, see DESIGN.md section 4)"

manifest = {
    "version": 1,
    "setup_cmd": "./setup.sh",
    "hooks": {
        "guard": "verif",
        "enable": "none - harnesses are injected by go/packages and go test overlays; /repo is not modified",
        "baseline_off_cmd": BASELINE_OFF,
        "source_commits": [],
        "add_only": True,
    },
    "engines": [{
        "name": "gosmt",
        "path": "engine/",
        "serves_properties": sorted(claims),
        "kind_free_text": "symbolic executor for Go SSA (go/ssa of /repo's current tree) -> SMT-LIB2 bit-vector queries to z3; DFS over feasible paths, goroutine schedules as decisions, native replay of witnesses",
    }],
    "checks": [],
    "not_applicable": [{"property_id": p, "reason": na[p]} for p in sorted(na)],
    "notes": "exit 0 = all assertion queries unsat within bounds; exit 1 = natively reproduced counterexample (VIOLATION line); exit 2 = inconclusive (bound exceeded, solver unknown, engine/native mismatch, vacuous harness) and is never reported as a pass.",
}
for p in sorted(claims):
    c = claims[p]
    manifest["checks"].append({
        "property_id": p,
        "quick_cmd": "./check %s quick" % p,
        "thorough_cmd": "./check %s thorough" % p,
        "evidence_file": "/verif/evidence/%s.json" % p,
        "replay_cmd_template": "./bin/gosmt replay -prop %s -file {path}" % p,
        "engine": "gosmt",
        "level_claimed": {"category": "model_checking", "text": c["text"], "design_ref": c["design"]},
        "level_note": c["note"],
        "technique": "bounded symbolic execution of the real Go SSA with SMT (z3) deciding each assertion over all inputs/schedules within bounds; native replay of witnesses",
    })
json.dump(manifest, open("MANIFEST.json", "w"), indent=1)
print("claimed:", sorted(claims), "n/a:", len(na))
