#!/usr/bin/env python3
"""Generates MANIFEST.json from the claims table below."""
import json

BASELINE_OFF = "for m in $(cat /w/out/gomods.txt); do MF=$(cd /repo/$m && . /w/out/goenv.sh && gomodflag); (cd /repo/$m && go test $MF -json -vet=off -count=1 -timeout 25m ./...); done"

TRUSTED = ("Trusted base: the gosmt SSA interpreter and its stub catalogue (DESIGN.md section 3.5: virtual clock, sync/atomic models, "
           "context, no-op logging/metrics/tracing, opaque round-tripping protobuf codec, native regexp compilation, symbolic matching of compiled programs), go/ssa, z3 4.8.12. "
           "Sampled paths and every counterexample are re-run natively against the real package (go test -overlay); any disagreement fails the check.")

claims = {}   # id -> dict(text=..., note=..., design=...)
na = {}       # id -> reason

def claim(pid, text, note, design):
    claims[pid] = dict(text=text, note=note, design=design)

claim("C01",
      "The end-to-end obligation is decided as step lemmas over the real code: (1) fan-out of admitted alerts to every live subscriber in order (map order of subscribers explored); (2) insert-or-create never "
      "loses an alert while flush/destroy/maintenance interleave; (3) the real aggregation-group run loop on a virtual clock: first flush <= group_wait after ingestion (at once for old alerts), every later flush "
      "exactly one group_interval after the previous tick, whatever the deliveries do (deliver, fail, hang until the deadline), every flush lists the firing alert; (4) with the receiver's real stage and the real "
      "notification log, failing deliveries record nothing and every following interval retries until one succeeds, after which the unchanged group is quiet; (5) behind the real fan-out a rejecting or hanging integration never keeps a slow but healthy sibling from being sent and recording the notification; (6) composition: the real provider, Dispatcher.Run and the real pipeline from PipelineBuilder.New (silencer, inhibitor, dedup, retry, real silences and nflog) assembled: an alert put at an arbitrary moment, optionally silenced for a symbolic time, is notified within max(group_wait, group_interval) plus one interval per failed flush, never while silenced, exactly once; with a routing tree exactly the receivers the documented rule selects are notified; (7) when the group's membership changes between flushes, every firing alert is in the latest notification (never left out because the group looks unchanged).",
      "The composition harness runs one fixed fair schedule (run to block, oldest runnable next) with timer settings from a grid; HTTP, config reload and a cluster wait > 0 are outside; bounds: 2-4 alerts, 2 subscribers, 3-4 flushes, 1 route, preemption bound 1 (quick) / 2. "
      "The must-notify direction of the dedup decision is C04's oracle. " + TRUSTED, "4 C01")
claim("C02",
      "Bounded symbolic model checking of the real silence code over histories: a silence created through Set, then k slots each with an arbitrary clock advance and an "
      "arbitrary operation (new silence, API edit, expire, replicated merge of an arbitrary version, GC, snapshot reload, alert-GC callback); after every slot "
      "Silencer.Mutes and the marker ids are compared, for all instants, with a direct evaluation of all stored silences. Queries concurrent with an update return the verdict before or after it and are exact again after quiescence.",
      "Bounds: k=2 slots (quick) / 3 (thorough), <=2 silences, matcher/alert pool (equality, regex+negation, OR-ed sets, UTF-8 name), whole-second instants. "
      "Concurrency: 1-2 Mutes calls against one update, preemption bound 1/2. " + TRUSTED, "4 C02")
claim("C03",
      "Bounded symbolic model checking of the real inhibitor over histories: sources fire, are refreshed, resolve, are garbage collected and fire again in arbitrary order "
      "with symbolic end times; after every step Inhibitor.Mutes and the reported inhibiting alert are compared with the existential rule evaluated on the currently firing sources. A rule with both two-sided and source-only sources of equal labels (whichever the index points at), and the real inhibitor fed by its own subscription in the assembled dispatcher+pipeline path.",
      "Bounds: k=3 steps (quick) / 4 (thorough), 4 sources (two sharing equal labels, one with a missing label, one two-sided), 4 targets, rule pool of 3 rules. "
      "The subscription goroutine is outside (processAlert is driven directly). " + TRUSTED, "4 C03")
claim("C04",
      "The dedup decision function is compared with the property's rule for every previous log entry, every firing/resolved set over a 3-alert universe, every "
      "repeat interval and instant; the repeat window is checked on the real DedupStage+SetNotifiesStage+nflog with GC at arbitrary instants and the tick time taken from the context; histories of 3-4 flushes with symbolic gaps, per-flush firing/resolved sets and failing deliveries against the rule applied to the last recorded notification; classification at the wall clock when the tick lags. A delivery that succeeds only after the flush deadline is still recorded (no early repeat).",
      "Bounds: 3 alert hashes, 1 group/receiver, one repeat window; histories of 3 (quick) / 4 flushes over 2 alerts. Timers and dispatcher restart are outside. " + TRUSTED, "4 C04")
claim("C05",
      "One flush of a real aggregation group with 2-3 alerts whose ends lie anywhere around the flush instant, a delivery that takes symbolic time, may fail, and during which an alert may fire "
      "again: what is handed over as resolved/firing, that firing alerts cannot resolve in flight, deletion iff delivered+resolved+unmodified, destruction iff empty, re-fired alert reported firing next time. The receiver's real pipeline (fan-out goroutines, dedup, retry, record, real nflog) with one or two integrations of either send_resolved setting over two flushes: without send_resolved no resolved alert is ever listed, with it the batch is listed exactly and a resolution is reported at the next flush; a group resolved before its first flush sends nothing. Composition: resolution (explicit end or resolve timeout at a symbolic moment, re-fire before the reporting flush) through provider + Dispatcher.Run + real pipeline on one fixed fair schedule.",
      "Bounds: <=3 alerts, 2 flushes, one re-fire, 2 integrations, preemption bound 1/2. the 'nothing to send' decision under C04. Timers are outside. " + TRUSTED, "4 C05")
claim("C06",
      "Group labels and group membership for every group_by setting (unset, any subset, empty list, '...') on a root or on a child under a parent with any setting, and every label-set pair; group keys identical across two independently built dispatchers, depending only on the matcher path and the group labels; "
      "exactly one group per matching route; the /alerts/groups view equals the partition; no split / no lost alert / consistent counters under interleavings of two ingestions, a destroying flush and maintenance. The concurrent variant also starts without a group (a short-lived group of a resolved alert may be flushed and destroyed between another worker's lookup and insertion).",
      "Bounds: 3 group_by labels, 5 label sets, a 5-route tree, 4 concurrent steps, preemption bound 1 (quick) / 2 (thorough). Counterexample schedules are confirmed natively with the same goroutines and the engine's "
      "order of arrival at synchronisation points enforced by overlay instrumentation (DESIGN.md 3.7); a schedule the native run cannot follow is reported as inconclusive (exit 2), not as a pass. " + TRUSTED, "4 C06")
claim("C07",
      "Route.Match on trees built by the real NewRoute is compared with a reference restated from the property for every tree shape up to 5 nodes, every assignment "
      "of per-node matcher outcomes (symbolic label values) and continue flags; option inheritance is checked for all presence profiles with symbolic timer values.",
      "Bounds: <=5 nodes, depth <=4, 9 (quick) / 13 (thorough) shapes; inheritance over a 3-level chain plus sibling. Regexp engine and YAML are outside. " + TRUSTED, "4 C07")
claim("C08",
      "2 instances hold the same firing group; each runs the receiver's real stage (ClusterWait with position x peer_timeout, Dedup against its own real nflog, Retry, SetNotifies) as goroutines on a virtual clock and "
      "gossips its log entry to the others with a symbolic delay or loses it; one instance may die right after the receiver accepted, before recording. Decided: at least one notification under every loss/delay/crash pattern; "
      "exactly one when every entry arrives faster than peer_timeout, nobody crashes and later positions do not flush earlier; an instance never sends twice. After a partition, one full-state message (MarshalBinary->Merge) makes the second instance silent for every group the first already notified.",
      "Bounds: 2 instances (the thorough tier adds hold durations), one group, one flush round, delays 0..40 s, skew 0..20 s. memberlist, partitions beyond loss/delay of single entries, Settle, the position computation from the member list and "
      "the flush-timeout extension in app.setup are outside. " + TRUSTED, "4 C08")
claim("C09",
      "Bounded symbolic model checking of the real silence merge code: inductive merge step from an arbitrary pre-state, delivery-order/batching/duplication convergence "
      "of 3 versions over 2 ids on two instances incl. indexes and query agreement, and propagation of API create/expire through the broadcast bytes. Full-state exchange through the instance's own MarshalBinary after lost single updates (an expiry is not dropped because the silence has ended).",
      "Bounds: <=3 versions, 2 ids, instants 1970..2200 with nanoseconds. Codec opaque, transport outside. " + TRUSTED, "4 C09")
claim("C10",
      "Bounded symbolic model checking of the real nflog code: the merge step from an arbitrary pre-state (inductive), Log/Query/GC laws and "
      "delivery-order convergence are each decided by SMT for all instants/flags within the stated bounds; an unsat answer covers every input on that path. Receiver data are returned unchanged whatever an abandoned later attempt does with the Store built from the held entry.",
      "Bounds: <=3 entries, 2 keys, <=4 operations, instants 1970..2200. Codec opaque. " + TRUSTED, "4 C10")
claim("C11",
      "The real maintenance/shutdown snapshot code of silences and notification log runs on a crash-consistent file-system model: the process is killed before each of its file-system operations, or the machine loses power "
      "after completion; unsynced data survives only as an arbitrary prefix (possibly a torn record), an unsynced rename may be lost; the restarted instance must load, without error, exactly the old or exactly the new state. "
      "Snapshot->load round trips (all field shapes, old single-list format, legacy comments) and loads of cut snapshots run through the real protobuf codec natively. Crash harnesses start with a stale temporary snapshot around; a second harness runs the maintenance loop (periodic + shutdown snapshot) around an in-place change.",
      "Bounds: <=3 entries per state, one maintenance round, <=7 FS operations, 7 cut positions. The crash harnesses exist only in the engine (the FS model is a stub of package os; counterexamples are re-executed by `gosmt replay`); "
      "I/O errors (ENOSPC) are outside, as the property quantifies over kills and power loss; field-level wire-format equality is checked natively only on the sampled paths. " + TRUSTED, "4 C11")
claim("C12",
      "Lifecycle histories on the real silence store: create (start possibly in the past), then k arbitrary steps (edit comment/end/start/matchers, unknown id, expire twice, GC) at arbitrary "
      "instants, compared with the lifecycle rules of the property; plus the API handler's rejections (end<=start, end in the past, empty-matching or invalid matchers, unknown id). A history-rewriting edit concurrent with an end-only edit of the same id, with time allowed to pass while a goroutine is descheduled (slow=2).",
      "Bounds: k=3 steps (quick) / 4 (thorough), one original silence plus replacements; two API calls never share one clock reading. HTTP decoding is outside. " + TRUSTED, "4 C12")
claim("C13",
      "The real POST /alerts handler on batches of 1-3 alerts with/without start/end and valid/invalid labels (defaults, partial acceptance, status code); the real mem provider on two submissions of "
      "one label set with arbitrary explicit or timed-out ranges at arbitrary instants (earliest start, timeout pushed forward, explicit past end resolves, order of publication); GC removes exactly the resolved alerts; POST then GET /alerts through the real handlers, provider and routing tree: "
      "exactly the unexpired alerts passing the active/silenced/inhibited switches, once each, in fingerprint order, with stored times, routed receivers and the current suppression status.",
      "Bounds: batch <=3, 2 submissions per label set, 3 alerts for GC, 2-3 alerts for GET (silencer/inhibitor represented by a status function keyed on labels). JSON/OpenAPI decoding and the filter/receiver query parameters are outside. " + TRUSTED, "4 C13")
claim("C14",
      "The dispatcher's real ingestion workers (run) consume 2-3 back-to-back versions of one alert; the engine explores every assignment of updates to workers and every "
      "interleaving at channel/sync.Map/store-lock granularity within a preemption bound and asserts that every group ends with the version submitted last. The racing updates also go into an already registered group.",
      "Bounds: 2 updates x 2 workers, preemption bound 1 (quick); 3 updates, 2 workers, preemption bound 1 (thorough). Counterexample schedules are confirmed natively on the real worker goroutines with the "
      "engine's order of arrival at synchronisation points enforced by overlay instrumentation (DESIGN.md 3.7). Preemption between non-synchronising instructions is outside. " + TRUSTED, "4 C14")
claim("C15",
      "ContainsTime is compared with the documented meaning for every accepted interval specification (up to 1-2 ranges per field, each field possibly absent, symbolic bounds) and for every "
      "minute of the years 1970..2099: the instant is an abstract Gregorian date-time whose components are symbolic and tied together exactly (month lengths, leap years, weekday, Unix seconds). "
      "The mute/active stages are run with the real Intervener at an arbitrary tick. Three successive flushes through the active/mute stages with one shared group marker leave the route's interval lists untouched and gate each flush on its own.",
      "Bounds: 1 range per field (thorough: 2 for times and days of month), years 1970..2099 (the century leap exceptions are outside); interval location absent, any fixed offset within +-14h, or a zone with one transition (spring-forward / fall-back at a fixed instant of 2024, instants of that year); the tz database itself is outside. Go's calendar arithmetic is trusted; "
      "the engine's calendar model is cross-checked natively on every sampled path. The HH:MM and name parsers and YAML are outside. " + TRUSTED, "4 C15")
claim("C16",
      "The UTF-8 matcher lexer/parser is executed on an arbitrary buffer of up to 4 (quick) / 5 (thorough) symbolic bytes: no panic, termination within the unwinding bound; printing a matcher "
      "with any operator and an arbitrary valid UTF-8 value of up to 4/5 bytes and parsing it back is the identity (also in a list); match semantics for all operators with symbolic label values, "
      "missing/empty labels, conjunction/disjunction and regex anchoring (compiled regexp programs run symbolically on values of up to 3 arbitrary bytes); the classic parser (list splitting, its regular expression, unescaping) on the printed form of 1-2 matchers with arbitrary valid UTF-8 values of up to 2 bytes; the fallback decision table on inputs covering every verdict combination of the two real parsers. The fallback decision table also for every input job=<v> with v any 1-3 bytes (both parsers on symbolic bytes); names outside the classic syntax round-trip through the quoted form.",
      "Bit-vector arithmetic. Regexp compilation is native (patterns come from pools), matching is a symbolic backtracking interpreter of the compiled program; names with reserved "
      "characters (strconv.Quote) and inputs longer than the bound are outside. " + TRUSTED, "4 C16")
claim("C17",
      "Only the post-decode half of the statement: the real validators (Config, Route, Receiver, time-interval UnmarshalYAML bodies and Load's root checks) run on decoded configurations of bounded shape (valid ones and every "
      "defect the validators are meant to catch, on root, child and grandchild): accepted => well formed; the coordinator keeps the configuration and does not reach its subscribers when loading fails; the three secret types marshal to <secret>; the validator never panics over all value/file combinations of the global credential settings and accepts none given twice.",
      "NOT claimed (cannot be encoded): totality of the YAML decoder on arbitrary bytes (yaml.v2 is reflection-driven parser code), that every secret-bearing field of the 18 integrations has a secret type, the per-integration validation, "
      "the print->load round trip, and the fallible-work-first ordering of app.reloader. Bounds: <=3 route nodes, 18 node shapes, 5 receiver lists, 6 interval lists. The coordinator harness replaces LoadFile by a symbolic outcome (engine only). " + TRUSTED, "4 C17")
claim("C18",
      "Histories of submissions, heartbeats, expiry and GC under a per-alert-name limit 1..3 on the real store+limit.Bucket code with symbolic end times (limit invariant, "
      "re-sends accepted, refusals reported, GC only removes resolved); silence count/size limits through the real Set (create, in-place edit, replacing edit) incl. 'rejected leaves state untouched'; "
      "the GET concurrency limiter with 2-4 concurrent GET/POST requests against a busy handler (at most L GETs inside, the rest 503 at once and counted, POSTs never refused, slots released).",
      "Bounds: limit<=3, <=2N+3 operations (two GC rounds in the thorough tier), 3 silences, GET limit 1-2 with <=5 requests, preemption bound 1/2. The HTTP server and TimeoutHandler around the limiter are outside. " + TRUSTED, "4 C18")

claim("C19",
      "Receive path of the real cluster delegate on full-state messages with up to 3 parts (registered/unknown keys, well-formed/malformed payloads, any order), single updates, "
      "duplicates and undecodable bytes; LocalState completeness; send-side routing of Channel.Broadcast (small vs oversized, every peer, failing peer) with the real sender goroutines. Two back-to-back updates (same size or smaller) keep their own content while queued.",
      "Only 'given that memberlist hands the bytes to the delegate / asks it for state, nothing is lost or blocked on our side' is claimed: memberlist itself (UDP gossip, TCP push/pull, "
      "liveness) cannot be encoded. Encoded sizes are a stand-in (payload length), so only sizes far from the threshold are used. " + TRUSTED, "4 C19")

claim("C20",
      "The real RetryStage against a scripted integration for every per-attempt outcome sequence (success / recoverable / unrecoverable / hang) of up to 3-4 attempts and every deadline position; "
      "the receiver's real stage (ClusterWait->Dedup->Retry->SetNotifies per integration under Fanout, real goroutines explored) for record-after-success and sibling isolation; Retrier.Check for every status "
      "code; webhook max_alerts; the template data laws (exact batch, status, common labels/annotations as intersections); byte and rune truncation of arbitrary valid UTF-8 strings of up to 6/8 bytes for every limit 0..8. The data handed to every integration is exactly its batch also when a sibling filters resolved alerts; the webhook notifier reports every transport failure, the per-attempt timeout included, as recoverable (engine-only harness with template/JSON/HTTP stubbed).",
      "Bounds: 4 attempts, 2 integrations, 3 alerts. The back-off ticker is a stub that ticks whenever the scheduler picks it (back-off durations outside); HTTP, template execution and the concrete notifiers "
      "are outside. " + TRUSTED, "4 C20")

ALL = ["C%02d" % i for i in range(1, 21)]
assert set(claims) | set(na) <= set(ALL), "unknown property id in claims: %r" % (set(claims) - set(ALL))
for p in ALL:
    if p not in claims and p not in na:
        na[p] = "check not yet built in this session (solver-based harness planned, see DESIGN.md section 4)"

manifest = {
    "version": 1,
    "setup_cmd": "./setup.sh",
    "hooks": {
        "guard": "verif",
        "enable": "none - harnesses are injected by go/packages and go test overlays; /repo is not modified",
        "baseline_off_cmd": BASELINE_OFF,
        "source_commits": [],
        "add_only": True,
    },
    "engines": [{
        "name": "gosmt",
        "path": "engine/",
        "serves_properties": sorted(claims),
        "kind_free_text": "symbolic executor for Go SSA (go/ssa of /repo's current tree) -> SMT-LIB2 bit-vector queries to z3; DFS over feasible paths, goroutine schedules as decisions, native replay of witnesses",
    }],
    "checks": [],
    "not_applicable": [{"property_id": p, "reason": na[p]} for p in sorted(na)],
    "notes": "exit 0 = all assertion queries unsat within bounds; exit 1 = natively reproduced counterexample (VIOLATION line); exit 2 = inconclusive (bound exceeded, solver unknown, engine/native mismatch, vacuous harness) and is never reported as a pass.",
}
for p in sorted(claims):
    c = claims[p]
    manifest["checks"].append({
        "property_id": p,
        "quick_cmd": "./check %s quick" % p,
        "thorough_cmd": "./check %s thorough" % p,
        "evidence_file": "/verif/evidence/%s.json" % p,
        "replay_cmd_template": "./bin/gosmt replay -prop %s -file {path}" % p,
        "engine": "gosmt",
        "level_claimed": {"category": "model_checking", "text": c["text"], "design_ref": c["design"]},
        "level_note": c["note"],
        "technique": "bounded symbolic execution of the real Go SSA with SMT (z3) deciding each assertion over all inputs/schedules within bounds; native replay of witnesses",
    })
json.dump(manifest, open("MANIFEST.json", "w"), indent=1)
print("claimed:", sorted(claims), "n/a:", len(na))
