#!/bin/sh
# Build the symbolic executor offline from the module cache (go1.26.8 + x/tools v0.50.0).
set -e
cd "$(dirname "$0")/engine"
export GOTOOLCHAIN=local PATH=/opt/veriftools/go1.26.8/bin:$PATH GOFLAGS=-mod=mod GOPROXY=off GOSUMDB=off
mkdir -p ../bin ../evidence
go build -o ../bin/gosmt .
echo "gosmt built"
