#!/bin/bash
# usage: ./seeds.sh [name...]  — apply each stored seeded change to a scratch worktree of /repo, run the property's quick check,
# expect a VIOLATION, revert; records the harnesses that caught it in seeded/<name>/meta.json
cd /verif
names="$@"; [ -z "$names" ] && names=$(ls seeded)
rc=0
for n in $names; do
  prop=${n%%-*}
  wt=/tmp/wt-seed-$$; git -C /repo worktree add -q --detach $wt HEAD || exit 2
  git -C $wt apply /verif/seeded/$n/patch.diff || { echo "$n: patch does not apply"; rc=1; git -C /repo worktree remove --force $wt; continue; }
  out=$(bin/gosmt check -prop $prop -tier quick -verif /verif -repo $wt 2>&1); code=$?
  git -C /repo worktree remove --force $wt; git -C /verif checkout -q -- evidence/$prop.json 2>/dev/null
  by=$(echo "$out" | grep -o "replay=/verif/replay/$prop-[A-Za-z0-9_]*" | sed "s#.*/$prop-##" | sort -u | tr '\n' ' ')
  rm -rf /verif/replay
  if [ $code -eq 1 ]; then echo "$n CAUGHT exit=$code by: $by"; else echo "$n MISSED exit=$code"; rc=1; fi
  python3 - "$n" "$code" "$by" <<'PY'
import json,sys
n,code,by=sys.argv[1],int(sys.argv[2]),sys.argv[3].split()
p=f'/verif/seeded/{n}/meta.json'
m=json.load(open(p))
m['confirmed']=True
m['caught']=(code==1)
m['caught_by']=by
json.dump(m,open(p,'w'),indent=1)
PY
done
exit $rc
