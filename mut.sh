#!/bin/sh
# usage: ./mut.sh <prop> <file-in-repo> <sed-expression>   — apply a mutant, run the quick check, revert
prop="$1"; f="$2"; expr="$3"
cd /repo && sed -i "$expr" "$f" && if git diff --quiet; then echo "MUTANT DID NOT APPLY"; exit 3; fi
cd /verif && ./check "$prop" quick 2>&1 | grep -E "VIOLATION|KNOWN|INCONCLUSIVE|PASS|exit=" | head -${4:-6}
git -C /repo checkout -- . ; rm -rf /verif/replay
