#!/bin/sh
# usage: ./mut.sh <prop> <file-in-repo> <sed-expression> [lines]  — apply a mutant in a scratch worktree of /repo,
# run the quick check against it, remove the worktree (never touches /repo)
prop="$1"; f="$2"; expr="$3"
wt=$(mktemp -d /tmp/wt-mut-XXXX); rmdir "$wt"
git -C /repo worktree add -q --detach "$wt" HEAD || exit 2
cleanup() { git -C /repo worktree remove --force "$wt" 2>/dev/null; git -C /verif checkout -q -- evidence/$prop.json 2>/dev/null; rm -rf /verif/replay; }
trap cleanup EXIT
cd "$wt" && sed -i "$expr" "$f" && if git diff --quiet; then echo "MUTANT DID NOT APPLY"; exit 3; fi
(cd "$wt" && GOFLAGS=-mod=mod GOPROXY=off go build ./$(dirname "$f")/ 2>&1 | head -3)
cd /verif && bin/gosmt check -prop "$prop" -tier quick -verif /verif -repo "$wt" 2>&1 | grep -E "VIOLATION|KNOWN|INCONCLUSIVE|PASS|exit=" | head -${4:-6}
